#!/bin/bash
# Build everything the checks need for the current /repo tree (offline).
set -e
cd "$(dirname "$0")"
exec python3-vt py/main.py --setup
