// rsprop <property> <quick|thorough> <seed>  -> one JSON line on stdout
use gufo_snmp::verif::buffer_model::{self, Op};
use gufo_snmp::verif::props;
use gufo_snmp::verif::runner::{self, Stats};
use proptest::prelude::*;
use std::sync::Mutex;

fn buffer_ops() -> impl Strategy<Value = Vec<Op>> {
    let size = prop_oneof![
        4 => 0usize..40,
        3 => prop::sample::select(vec![0usize, 1, 2, 3, 126, 127, 128, 129, 254, 255, 256, 257, 1000, 2000, 4000]),
        2 => 4070usize..4090,
        1 => 0usize..6000,
    ];
    let bytes = (size.clone(), any::<u8>()).prop_map(|(n, s)| (0..n).map(|k| (k as u8).wrapping_mul(7).wrapping_add(s)).collect::<Vec<u8>>());
    let op = prop_oneof![
        4 => bytes.clone().prop_map(Op::Push),
        2 => any::<u8>().prop_map(Op::PushU8),
        3 => (any::<u8>(), prop_oneof![size.clone(), 0usize..65536]).prop_map(|(t, v)| Op::PushTagLen(t, v)),
        3 => (any::<u8>(), bytes).prop_map(|(t, d)| Op::PushTagged(t, d)),
        2 => (size.clone(), any::<u8>()).prop_map(|(n, s)| Op::SkipFill(n, s)),
        1 => Just(Op::Reset),
        1 => (0usize..16).prop_map(Op::SetBookmark),
        1 => Just(Op::GetBookmark),
        1 => (size, any::<u8>()).prop_map(|(n, s)| Op::RecvLike(n, s)),
    ];
    prop::collection::vec(op, 1..60)
}

fn main() {
    let args: Vec<String> = std::env::args().collect();
    let prop = args.get(1).map(|s| s.as_str()).unwrap_or("");
    let thorough = args.get(2).map(|s| s == "thorough").unwrap_or(false);
    let seed: u64 = args.get(3).and_then(|s| s.parse().ok()).unwrap_or(0);
    runner::install_panic_hook();
    let st = Mutex::new(Stats::default());
    match prop {
        "c15" => {
            props::c15_int(&st, thorough, seed);
            props::c15_oid_etc(&st, thorough, seed);
            props::c15_msgs(&st, thorough, seed);
            props::c15_priv_msgs(&st, thorough, seed);
        }
        "c16" => {
            props::c16_values(&st, thorough, seed);
            props::c16_messages(&st, thorough, seed);
        }
        "c02" => {
            props::c16_values(&st, thorough, seed ^ 0x02);
        }
        "c17" => {
            runner::run_prop(&st, buffer_ops(), if thorough { 2_000_000 } else { 100_000 }, seed, |ops| buffer_model::run_ops(ops), |ops| format!("{:?}", ops.iter().map(|o| match o { Op::Push(d) => format!("Push({})", d.len()), Op::PushTagged(t, d) => format!("PushTagged({},{})", t, d.len()), o => format!("{:?}", o) }).collect::<Vec<_>>()));
        }
        _ => {
            eprintln!("unknown property {}", prop);
            std::process::exit(2);
        }
    }
    runner::print_json(prop, &st.lock().unwrap());
}
