//! proptest driver shared by all E2 properties: fixed seed, no persistence,
//! counting (stopped at the first failure), JSON result on stdout.
use proptest::strategy::{Strategy, ValueTree};
use proptest::test_runner::{Config, RngSeed, TestCaseError, TestError, TestRunner};
use std::collections::hash_map::DefaultHasher;
use std::collections::{BTreeMap, HashSet};
use std::hash::{Hash, Hasher};
use std::sync::Mutex;

pub struct Info {
    pub nontrivial: bool,
    pub key: u64,
    pub classes: Vec<&'static str>,
}

pub struct Fail {
    pub sig: String,
    pub msg: String,
}

pub fn fail<T>(sig: &str, msg: String) -> Result<T, Fail> {
    Err(Fail { sig: sig.to_string(), msg })
}

pub fn hash_of<T: Hash>(t: &T) -> u64 {
    let mut h = DefaultHasher::new();
    t.hash(&mut h);
    h.finish()
}

#[derive(Default)]
pub struct Stats {
    pub evaluations: u64,
    pub nontrivial: HashSet<u64>,
    pub classes: BTreeMap<String, u64>,
    pub samples: Vec<String>,
    pub frozen: bool,
    pub failure: Option<(String, String, String)>, // signature, message, case
}

impl Stats {
    pub fn record(&mut self, info: &Info, sample: impl FnOnce() -> String) {
        if self.frozen {
            return;
        }
        self.evaluations += 1;
        for c in &info.classes {
            *self.classes.entry(c.to_string()).or_insert(0) += 1;
        }
        if info.nontrivial {
            if self.nontrivial.insert(info.key) && self.samples.len() < 6 {
                self.samples.push(sample());
            }
        }
    }
    pub fn merge_count(&mut self, class: &str, n: u64) {
        *self.classes.entry(class.to_string()).or_insert(0) += n;
    }
}

pub fn json_escape(s: &str) -> String {
    let mut o = String::with_capacity(s.len() + 2);
    for c in s.chars() {
        match c {
            '"' => o.push_str("\\\""),
            '\\' => o.push_str("\\\\"),
            '\n' => o.push_str("\\n"),
            '\r' => o.push_str("\\r"),
            '\t' => o.push_str("\\t"),
            c if (c as u32) < 0x20 => o.push_str(&format!("\\u{:04x}", c as u32)),
            c => o.push(c),
        }
    }
    o
}

pub fn hex(b: &[u8]) -> String {
    b.iter().map(|x| format!("{:02x}", x)).collect()
}

pub fn print_json(prop: &str, st: &Stats) {
    let classes: Vec<String> = st.classes.iter().map(|(k, v)| format!("\"{}\": {}", json_escape(k), v)).collect();
    let samples: Vec<String> = st.samples.iter().map(|s| format!("\"{}\"", json_escape(s))).collect();
    let failure = match &st.failure {
        None => "null".to_string(),
        Some((sig, msg, case)) => format!(
            "{{\"signature\": \"{}\", \"message\": \"{}\", \"case\": \"{}\"}}",
            json_escape(sig),
            json_escape(msg),
            json_escape(case)
        ),
    };
    println!(
        "{{\"prop\": \"{}\", \"evaluations\": {}, \"distinct_nontrivial\": {}, \"classes\": {{{}}}, \"samples\": [{}], \"failure\": {}}}",
        json_escape(prop),
        st.evaluations,
        st.nontrivial.len(),
        classes.join(", "),
        samples.join(", "),
        failure
    );
}

/// Call `f`, turning a panic into a Fail whose signature names the panic location.
pub fn guard<T>(f: impl FnOnce() -> Result<T, Fail> + std::panic::UnwindSafe) -> Result<T, Fail> {
    match std::panic::catch_unwind(f) {
        Ok(r) => r,
        Err(e) => {
            let msg = if let Some(s) = e.downcast_ref::<&str>() {
                s.to_string()
            } else if let Some(s) = e.downcast_ref::<String>() {
                s.clone()
            } else {
                "panic".to_string()
            };
            let loc = LAST_PANIC.lock().unwrap().clone();
            Err(Fail { sig: format!("panic:{}", loc), msg: format!("library code panicked at {}: {}", loc, msg) })
        }
    }
}

pub static LAST_PANIC: Mutex<String> = Mutex::new(String::new());

pub fn install_panic_hook() {
    std::panic::set_hook(Box::new(|info| {
        let loc = info.location().map(|l| format!("{}:{}", l.file().rsplit("/src/").next().unwrap_or(l.file()), l.line())).unwrap_or_default();
        *LAST_PANIC.lock().unwrap() = loc;
    }));
}

/// Run a property over a proptest strategy.
pub fn run_prop<S, F, R>(st: &Mutex<Stats>, strategy: S, cases: u32, seed: u64, body: F, render: R)
where
    S: Strategy,
    S::Value: std::fmt::Debug,
    F: Fn(&S::Value) -> Result<Info, Fail>,
    R: Fn(&S::Value) -> String,
{
    if st.lock().unwrap().failure.is_some() {
        return;
    }
    let config = Config {
        cases,
        failure_persistence: None,
        rng_seed: RngSeed::Fixed(seed),
        max_shrink_iters: 4000,
        max_global_rejects: 1_000_000,
        ..Config::default()
    };
    let mut runner = TestRunner::new(config);
    let r = runner.run(&strategy, |v| match body(&v) {
        Ok(info) => {
            st.lock().unwrap().record(&info, || render(&v));
            Ok(())
        }
        Err(f) => {
            st.lock().unwrap().frozen = true;
            Err(TestCaseError::fail(format!("{}: {}", f.sig, f.msg)))
        }
    });
    let mut s = st.lock().unwrap();
    s.frozen = false;
    match r {
        Ok(()) => {}
        Err(TestError::Fail(_, v)) => {
            // re-run on the minimal value to get its own signature / message
            drop(s);
            let f = match body(&v) {
                Err(f) => f,
                Ok(_) => Fail { sig: "flaky".into(), msg: "minimal case passed on re-run".into() },
            };
            st.lock().unwrap().failure = Some((f.sig, f.msg, render(&v)));
        }
        Err(TestError::Abort(reason)) => {
            s.failure = Some(("harness-abort".into(), format!("{}", reason), String::new()));
        }
    }
}

/// Deterministically enumerate values (exhaustive parts).
pub fn run_enum<T, I, F, R>(st: &Mutex<Stats>, iter: I, body: F, render: R)
where
    I: Iterator<Item = T>,
    F: Fn(&T) -> Result<Info, Fail>,
    R: Fn(&T) -> String,
{
    if st.lock().unwrap().failure.is_some() {
        return;
    }
    let mut s = st.lock().unwrap();
    for v in iter {
        match body(&v) {
            Ok(info) => s.record(&info, || render(&v)),
            Err(f) => {
                s.failure = Some((f.sig, f.msg, render(&v)));
                return;
            }
        }
    }
}

#[allow(dead_code)]
pub fn sample_value<S: Strategy>(strategy: &S, runner: &mut TestRunner) -> S::Value {
    strategy.new_tree(runner).unwrap().current()
}
