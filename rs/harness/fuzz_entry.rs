//! Entry points of the libFuzzer targets (E3).  The semantic oracles live here, inside the
//! target: a violated oracle panics with a message starting "ORACLE:", a library panic or an
//! AddressSanitizer report stops the campaign as well.
use super::buffer_model;
use super::props::{decode_message, typed_decode, value_decode};
use super::runner::hex;
use crate::privacy::{PrivKey, SnmpPriv};
use crate::snmp::msg::v3::{ScopedPdu, UsmParameters};
use std::collections::hash_map::DefaultHasher;
use std::hash::{Hash, Hasher};

fn classify(tag: &str, nontrivial: bool, data: &[u8]) {
    if std::env::var_os("VERIF_CLASSIFY").is_some() {
        let mut h = DefaultHasher::new();
        data.hash(&mut h);
        eprintln!("CLASS {:016x} {} {}", h.finish(), nontrivial as u8, tag);
    }
}

/// suffix derived from the input itself (so that a saved input reproduces the whole case)
fn derived_suffix(data: &[u8]) -> Vec<u8> {
    let n = data.len();
    let sel = if n > 0 { data[n - 1] } else { 0 };
    match sel % 5 {
        0 => vec![b'0' + (sel % 10), b'7', b'.', b'5'],
        1 => vec![0x80 | (sel >> 1), 0x81, 0x01],
        2 => vec![0x02, 0x01, sel],
        3 => data.iter().rev().take(6).cloned().collect(),
        _ => vec![sel],
    }
}

/// C01 + C16 over the pure decoders.  byte 0 selects the decoder, the rest is the input.
pub fn decoders(data: &[u8]) {
    if data.is_empty() {
        return;
    }
    let mode = data[0] % 32;
    let body = &data[1..];
    match mode {
        0 | 1 | 2 | 3 | 4 | 5 => {
            // whole messages: v1, v2c, v3 (twice as likely each)
            let ver = [0u8, 1, 3][(mode % 3) as usize];
            match decode_message(ver, body) {
                Ok(_) => {
                    // C16: nothing may follow the top-level message
                    let mut x = body.to_vec();
                    x.extend(derived_suffix(body));
                    if decode_message(ver, &x).is_ok() {
                        panic!("ORACLE:trailing-bytes-accepted v{} message {} still decodes with {} appended", ver, hex(body), hex(&derived_suffix(body)));
                    }
                    classify("message:decodes", true, data);
                }
                Err(_) => classify("message:rejected", body.len() > 4 && body[0] == 0x30, data),
            }
        }
        6 => {
            let _ = ScopedPdu::try_from(body).map(|_| ());
            classify("scoped", false, data);
        }
        7 | 8 => {
            // privacy decrypt path: key (16), boots/time (8), salt length + salt, ciphertext
            if body.len() < 26 {
                return;
            }
            let code = if mode == 7 { 1u8 } else { 2u8 };
            let mut pk = PrivKey::new(code).expect("known privacy code");
            pk.as_localized(&body[..16]).expect("16-octet key");
            let boots = u32::from_be_bytes([body[16], body[17], body[18], body[19]]) as i64;
            let time = u32::from_be_bytes([body[20], body[21], body[22], body[23]]) as i64;
            let sl = (body[24] % 33) as usize;
            let rest = &body[25..];
            if rest.len() < sl {
                return;
            }
            let (salt, ct) = rest.split_at(sl);
            let usm = UsmParameters { engine_id: b"e", engine_boots: boots, engine_time: time, user_name: b"u", auth_params: &[], privacy_params: salt };
            let ok = pk.decrypt(ct, &usm).is_ok();
            classify(if ok { "decrypt:parsed" } else { "decrypt:rejected" }, sl == 8 && ct.len() >= 8, data);
        }
        m => {
            // single elements: typed decoder chosen by the mode, and SnmpValue; C16 metamorphic oracle
            let kind = (m - 9) % 19;
            let s = derived_suffix(body);
            for which in 0..2 {
                let alone = if which == 0 { typed_decode(kind, body) } else { Some(value_decode(body)) };
                let alone = match alone {
                    Some(Ok(a)) => a,
                    _ => continue,
                };
                // the element proper is what the decoder consumed
                let used = body.len() - alone.0;
                let x = &body[..used];
                let mut xs = x.to_vec();
                xs.extend(&s);
                let with = if which == 0 { typed_decode(kind, &xs).unwrap() } else { value_decode(&xs) };
                match with {
                    Ok((rest, v)) => {
                        if rest != s.len() {
                            panic!("ORACLE:extent-remaining element {} followed by {}: {} octets remain instead of {}", hex(x), hex(&s), rest, s.len());
                        }
                        if v != alone.1 && !(v.starts_with("real:nan") && alone.1.starts_with("real:nan")) {
                            panic!("ORACLE:extent-value element {} decodes to {} alone but to {} when followed by {}", hex(x), alone.1, v, hex(&s));
                        }
                    }
                    Err(e) => panic!("ORACLE:extent-reject element {} accepted alone but rejected ({}) when followed by {}", hex(x), e, hex(&s)),
                }
                classify("element:decodes", true, data);
            }
        }
    }
}

/// C17 (b): byte-coded Buffer op sequences against the Vec model, under ASan.
pub fn buffer_ops(data: &[u8]) {
    let ops = buffer_model::decode_ops(data);
    if ops.is_empty() {
        return;
    }
    match buffer_model::run_ops(&ops) {
        Ok(info) => classify("buffer", info.nontrivial, data),
        Err(f) => panic!("ORACLE:{} {}", f.sig, f.msg),
    }
}

// ---------------------------------------------------------------------------------------------
// recv_path: the *real* receive path (Python-constructed client sockets, loopback UDP, to_python)
// ---------------------------------------------------------------------------------------------
use super::refenc as re;
use crate::error::PySnmpError;
use crate::snmp::op::GetIter;
use crate::socket::{SnmpV1ClientSocket, SnmpV2cClientSocket, SnmpV3ClientSocket};
use cipher::{block_padding::NoPadding, AsyncStreamCipher, BlockEncryptMut, KeyIvInit};
use digest::Digest;
use pyo3::exceptions::{PyBlockingIOError, PyNotImplementedError, PyOSError, PyRuntimeError, PyStopAsyncIteration, PyStopIteration, PyTimeoutError, PyValueError};
use pyo3::prelude::*;
use pyo3::types::PyBytes;
use std::net::UdpSocket;
use std::sync::OnceLock;

const ENGINE: &[u8] = &[0x80, 0x00, 0x1f, 0x88, 0x80, 0xe3, 0xa1, 0xb2, 0xc3, 0xd4];
const AUTH_KEY: [u8; 20] = [7, 1, 2, 3, 4, 5, 6, 7, 8, 9, 10, 11, 12, 13, 14, 15, 16, 17, 18, 19];
const PRIV_KEY: [u8; 20] = [9, 21, 22, 23, 24, 25, 26, 27, 28, 29, 30, 31, 32, 33, 34, 35, 36, 37, 38, 39];

struct Session {
    obj: Py<PyAny>,
    ver: u8,
    auth: u8, // 0 none 1 md5 2 sha1
    priv_: u8, // 0 none 1 des 2 aes
}

struct World {
    agent: UdpSocket,
    sessions: Vec<Session>,
}

static WORLD: OnceLock<World> = OnceLock::new();

fn world() -> &'static World {
    WORLD.get_or_init(|| {
        let agent = UdpSocket::bind("127.0.0.1:0").expect("bind");
        agent.set_nonblocking(true).unwrap();
        let addr = format!("127.0.0.1:{}", agent.local_addr().unwrap().port());
        let mut sessions = Vec::new();
        Python::with_gil(|py| {
            let v1 = py.get_type::<SnmpV1ClientSocket>().call1((addr.clone(), "public", 0u32, 0usize, 0usize, 0u64)).expect("v1");
            sessions.push(Session { obj: v1.unbind(), ver: 0, auth: 0, priv_: 0 });
            let v2 = py.get_type::<SnmpV2cClientSocket>().call1((addr.clone(), "public", 0u32, 0usize, 0usize, 0u64)).expect("v2c");
            sessions.push(Session { obj: v2.unbind(), ver: 1, auth: 0, priv_: 0 });
            for (auth, priv_) in [(0u8, 0u8), (1, 0), (2, 0), (1, 1), (2, 1), (1, 2), (2, 2)] {
                let ks = if auth == 1 { 16 } else { 20 };
                let akey: &[u8] = if auth == 0 { &[] } else { &AUTH_KEY[..ks] };
                let pkey: &[u8] = if priv_ == 0 { &[] } else { &PRIV_KEY[..ks] };
                let s = py
                    .get_type::<SnmpV3ClientSocket>()
                    .call1((addr.clone(), PyBytes::new(py, ENGINE), "user", if auth == 0 { 0u8 } else { auth | 0x80 }, PyBytes::new(py, akey), if priv_ == 0 { 0u8 } else { priv_ | 0x80 }, PyBytes::new(py, pkey), 0u32, 0usize, 0usize, 0u64))
                    .expect("v3");
                sessions.push(Session { obj: s.unbind(), ver: 3, auth, priv_ });
            }
        });
        World { agent, sessions }
    })
}

fn hmac96(auth: u8, key: &[u8], msg: &[u8]) -> Vec<u8> {
    fn run<D: Digest>(key: &[u8], msg: &[u8]) -> Vec<u8> {
        let mut k = [0u8; 64];
        k[..key.len()].copy_from_slice(key);
        let ipad: Vec<u8> = k.iter().map(|x| x ^ 0x36).collect();
        let opad: Vec<u8> = k.iter().map(|x| x ^ 0x5c).collect();
        let mut h = D::new();
        h.update(&ipad);
        h.update(msg);
        let inner = h.finalize();
        let mut h2 = D::new();
        h2.update(&opad);
        h2.update(&inner);
        h2.finalize()[..12].to_vec()
    }
    if auth == 1 { run::<md5::Md5>(key, msg) } else { run::<sha1::Sha1>(key, msg) }
}

/// ids of a request emitted by the client (lenient walk, enough for the fix-ups)
fn request_ids(ver: u8, d: &[u8], priv_: u8) -> Option<(i64, i64)> {
    let top = re::read_tlv(d).ok()?;
    let v = re::read_tlv(top.content).ok()?;
    if ver != 3 {
        let comm = re::read_tlv(v.rest).ok()?;
        let pdu = re::read_tlv(comm.rest).ok()?;
        let rid = re::read_tlv(pdu.content).ok()?;
        return Some((re::dec_int(rid.content).ok()?, 0));
    }
    let hdr = re::read_tlv(v.rest).ok()?;
    let mid = re::read_tlv(hdr.content).ok()?;
    let msg_id = re::dec_int(mid.content).ok()?;
    if priv_ != 0 {
        return Some((0, msg_id)); // request-id is inside the ciphertext; Reports / mismatches are fine for the fuzzer
    }
    let sp = re::read_tlv(hdr.rest).ok()?;
    let scoped = re::read_tlv(sp.rest).ok()?;
    let ceid = re::read_tlv(scoped.content).ok()?;
    let cname = re::read_tlv(ceid.rest).ok()?;
    let pdu = re::read_tlv(cname.rest).ok()?;
    let rid = re::read_tlv(pdu.content).ok()?;
    Some((re::dec_int(rid.content).ok()?, msg_id))
}

fn patch(mut p: Vec<u8>, needle: [u8; 4], v: i64) -> Vec<u8> {
    if let Some(pos) = p.windows(4).position(|w| w == needle) {
        p[pos..pos + 4].copy_from_slice(&(v as u32).to_be_bytes());
    }
    p
}

/// Wrap PDU bytes into a complete, correctly secured message for the session.
fn wrap(s: &Session, pdu: &[u8], msg_id: i64, salt_len: usize) -> Vec<u8> {
    if s.ver != 3 {
        let mut body = re::enc_int(s.ver as i64);
        body.extend(re::tlv(0x04, b"public"));
        body.extend(pdu);
        return re::tlv(0x30, &body);
    }
    let mut sc = re::tlv(0x04, ENGINE);
    sc.extend(re::tlv(0x04, &[]));
    sc.extend(pdu);
    let scoped = re::tlv(0x30, &sc);
    let ks = if s.auth == 1 { 16 } else { 20 };
    let salt: Vec<u8> = (0..salt_len).map(|i| 0xa0 + i as u8).collect();
    let (boots, time) = (3i64, 77i64);
    let data = match s.priv_ {
        0 => scoped,
        1 => {
            let mut iv = [0u8; 8];
            for i in 0..8 {
                iv[i] = PRIV_KEY[8 + i] ^ salt.get(i).cloned().unwrap_or(0);
            }
            let mut buf = scoped.clone();
            while buf.len() % 8 != 0 {
                buf.push(0);
            }
            let n = buf.len();
            let enc = cbc::Encryptor::<des::Des>::new_from_slices(&PRIV_KEY[..8], &iv).unwrap();
            enc.encrypt_padded_mut::<NoPadding>(&mut buf, n).unwrap();
            re::tlv(0x04, &buf)
        }
        _ => {
            let mut iv = [0u8; 16];
            iv[..4].copy_from_slice(&(boots as u32).to_be_bytes());
            iv[4..8].copy_from_slice(&(time as u32).to_be_bytes());
            for i in 0..8 {
                iv[8 + i] = salt.get(i).cloned().unwrap_or(0);
            }
            let mut buf = scoped.clone();
            cfb_mode::Encryptor::<aes::Aes128>::new_from_slices(&PRIV_KEY[..16], &iv).unwrap().encrypt(&mut buf);
            re::tlv(0x04, &buf)
        }
    };
    let mut usm = re::tlv(0x04, ENGINE);
    usm.extend(re::enc_int(boots));
    usm.extend(re::enc_int(time));
    usm.extend(re::tlv(0x04, b"user"));
    let auth_off_in_usm = usm.len() + 2;
    usm.extend(re::tlv(0x04, if s.auth != 0 { &[0u8; 12] } else { &[] }));
    usm.extend(re::tlv(0x04, if s.priv_ != 0 { &salt } else { &[] }));
    let usm_seq = re::tlv(0x30, &usm);
    let usm_hdr = usm_seq.len() - usm.len();
    let flags = (s.auth != 0) as u8 | (((s.priv_ != 0) as u8) << 1);
    let mut hdr = re::enc_int(msg_id);
    hdr.extend(re::enc_int(65507));
    hdr.extend(re::tlv(0x04, &[flags]));
    hdr.extend(re::enc_int(3));
    let mut body = re::enc_int(3);
    body.extend(re::tlv(0x30, &hdr));
    let sp = re::tlv(0x04, &usm_seq);
    let sp_hdr = sp.len() - usm_seq.len();
    let before_sp = body.len();
    body.extend(&sp);
    body.extend(&data);
    let mut msg = re::tlv(0x30, &body);
    if s.auth != 0 {
        let top_hdr = msg.len() - body.len();
        let off = top_hdr + before_sp + sp_hdr + usm_hdr + auth_off_in_usm;
        let mac = hmac96(s.auth, &AUTH_KEY[..ks], &msg);
        msg[off..off + 12].copy_from_slice(&mac);
    }
    msg
}

fn allowed(py: Python<'_>, e: &PyErr) -> bool {
    e.is_instance_of::<PySnmpError>(py)
        || e.is_instance_of::<PyTimeoutError>(py)
        || e.is_instance_of::<PyBlockingIOError>(py)
        || e.is_instance_of::<PyOSError>(py)
        || e.is_instance_of::<PyValueError>(py)
        || e.is_instance_of::<PyStopIteration>(py)
        || e.is_instance_of::<PyStopAsyncIteration>(py)
        || e.is_instance_of::<PyRuntimeError>(py)
        || e.is_instance_of::<PyNotImplementedError>(py)
}

/// byte 0: session (x9) and operation (x5); byte 1: delivery mode; rest: payload.
pub fn recv_path(data: &[u8]) {
    if data.len() < 3 {
        return;
    }
    let w = world();
    let s = &w.sessions[(data[0] as usize) % w.sessions.len()];
    let mut op = (data[0] as usize / w.sessions.len()) % 5;
    if op == 4 && s.ver != 3 {
        op = 0;
    }
    if op == 3 && s.ver == 0 {
        op = 2;
    }
    let mode = data[1] % 4;
    let payload = &data[2..];
    let mut buf = [0u8; 8192];
    while w.agent.recv_from(&mut buf).is_ok() {}
    Python::with_gil(|py| {
        let obj = s.obj.bind(py);
        let iter = py.get_type::<GetIter>().call1(("1.3.6.1.2.1", 5i64)).expect("iter");
        let sent = match op {
            0 => obj.call_method1("send_get", ("1.3.6.1.2.1.1.3.0",)),
            1 => obj.call_method1("send_get_many", (vec!["1.3.6.1.2.1.1.3.0", "1.3.6.1.2.1.1.5.0"],)),
            2 => obj.call_method1("send_get_next", (&iter,)),
            3 => obj.call_method1("send_get_bulk", (&iter,)),
            _ => obj.call_method0("send_refresh"),
        };
        if let Err(e) = sent {
            panic!("ORACLE:send-failed {:?}", e);
        }
        let (n, peer) = match w.agent.recv_from(&mut buf) {
            Ok(x) => x,
            Err(_) => panic!("ORACLE:no-request-on-the-wire"),
        };
        let req = &buf[..n];
        let (rid, mid) = request_ids(s.ver, req, s.priv_).unwrap_or((0, 0));
        let reply: Vec<u8> = match mode {
            0 => payload.to_vec(),
            1 => patch(patch(payload.to_vec(), [0xaa; 4], rid), [0xbb; 4], mid),
            // payload is a PDU: wrap it into a correctly secured message of the session's version
            2 => wrap(s, &patch(payload.to_vec(), [0xaa; 4], rid), mid, 8),
            _ => wrap(s, &patch(payload.to_vec(), [0xaa; 4], rid), mid, (payload[0] % 17) as usize),
        };
        let reply = &reply[..reply.len().min(4080)];
        let _ = w.agent.send_to(reply, peer);
        let r = match op {
            0 => obj.call_method0("recv_get"),
            1 => obj.call_method0("recv_get_many"),
            2 => obj.call_method1("recv_get_next", (&iter,)),
            3 => obj.call_method1("recv_get_bulk", (&iter,)),
            _ => obj.call_method0("recv_refresh"),
        };
        let tag = match &r {
            Ok(_) => "recv:value",
            Err(e) => {
                if !allowed(py, e) {
                    panic!("ORACLE:undocumented-exception {:?} for datagram {}", e, hex(reply));
                }
                if e.is_instance_of::<PyBlockingIOError>(py) { "recv:skipped" } else { "recv:exception" }
            }
        };
        classify(tag, r.is_ok() || mode >= 2, data);
    });
}
