//! C17 (b): sequences of Buffer operations against a Vec-backed shadow model.
use super::runner::{fail, guard, hash_of, Fail, Info};
use crate::buf::Buffer;
use std::mem::MaybeUninit;

#[derive(Debug, Clone, Hash)]
pub enum Op {
    Push(Vec<u8>),
    PushU8(u8),
    PushTagLen(u8, usize),
    PushTagged(u8, Vec<u8>),
    SkipFill(usize, u8),
    Reset,
    SetBookmark(usize),
    GetBookmark,
    RecvLike(usize, u8),
    Check,
}

fn pattern(i: usize, seed: u8) -> u8 {
    (i as u8).wrapping_mul(31).wrapping_add(seed)
}

/// Interpret `ops`; every observable is compared with the model after every step.
pub fn run_ops(ops: &[Op]) -> Result<Info, Fail> {
    let ops = ops.to_vec();
    guard(move || {
        let mut buf = Buffer::default();
        let cap = buf.free() + buf.len();
        if !buf.is_empty() || buf.len() != 0 {
            return fail("buffer-initial", "fresh buffer not empty".into());
        }
        let mut model: Vec<u8> = Vec::new(); // logical content, lowest address first
        let mut bookmark: Option<(usize, usize)> = None; // (len at set time, delta)
        let mut oob = 0u32;
        let mut dirty = false; // a failed compound op may have left a partial write (no atomicity promised)
        for (step, op) in ops.iter().enumerate() {
            match op {
                Op::Push(d) => {
                    let fits = model.len() + d.len() <= cap;
                    match buf.push(d) {
                        Ok(()) => {
                            if !fits {
                                return fail("push-accepted-without-room", format!("step {}: push of {} octets accepted with {} free", step, d.len(), cap - model.len()));
                            }
                            let mut m = d.clone();
                            m.extend_from_slice(&model);
                            model = m;
                        }
                        Err(_) => {
                            oob += 1;
                            if fits {
                                return fail("push-refused-with-room", format!("step {}: push of {} octets refused with {} free", step, d.len(), cap - model.len()));
                            }
                        }
                    }
                }
                Op::PushU8(v) => {
                    let fits = model.len() < cap;
                    match buf.push_u8(*v) {
                        Ok(()) => {
                            if !fits {
                                return fail("push-accepted-without-room", format!("step {}: push_u8 on a full buffer", step));
                            }
                            model.insert(0, *v);
                        }
                        Err(_) => {
                            oob += 1;
                            if fits {
                                return fail("push-refused-with-room", format!("step {}: push_u8 refused with {} free", step, cap - model.len()));
                            }
                        }
                    }
                }
                Op::PushTagLen(tag, v) => {
                    let hdr: Vec<u8> = if *v < 128 { vec![*tag, *v as u8] } else if *v < 256 { vec![*tag, 0x81, *v as u8] } else { vec![*tag, 0x82, (*v >> 8) as u8, *v as u8] };
                    let fits = model.len() + hdr.len() <= cap;
                    match buf.push_tag_len(*tag, *v) {
                        Ok(()) => {
                            if !fits {
                                return fail("push-accepted-without-room", format!("step {}: push_tag_len({}) accepted with {} free", step, v, cap - model.len()));
                            }
                            let mut m = hdr;
                            m.extend_from_slice(&model);
                            model = m;
                        }
                        Err(_) => {
                            oob += 1;
                            if fits {
                                return fail("push-refused-with-room", format!("step {}: push_tag_len({}) refused with {} free", step, v, cap - model.len()));
                            }
                        }
                    }
                }
                Op::PushTagged(tag, d) => {
                    // = push(data) then push_tag_len(tag, len): not atomic
                    let v = d.len();
                    let hdr: Vec<u8> = if v < 128 { vec![*tag, v as u8] } else if v < 256 { vec![*tag, 0x81, v as u8] } else { vec![*tag, 0x82, (v >> 8) as u8, v as u8] };
                    let fits_data = model.len() + d.len() <= cap;
                    let fits_all = model.len() + d.len() + hdr.len() <= cap;
                    match buf.push_tagged(*tag, d) {
                        Ok(()) => {
                            if !fits_all {
                                return fail("push-accepted-without-room", format!("step {}: push_tagged of {} octets accepted with {} free", step, v, cap - model.len()));
                            }
                            let mut m = hdr;
                            m.extend_from_slice(d);
                            m.extend_from_slice(&model);
                            model = m;
                        }
                        Err(_) => {
                            oob += 1;
                            if fits_all {
                                return fail("push-refused-with-room", format!("step {}: push_tagged of {} octets refused with {} free", step, v, cap - model.len()));
                            }
                            if fits_data {
                                // data went in, the header did not
                                let mut m = d.clone();
                                m.extend_from_slice(&model);
                                model = m;
                                dirty = true;
                            }
                        }
                    }
                }
                Op::SkipFill(n, seed) => {
                    let k = (*n).min(cap - model.len());
                    buf.skip(*n);
                    if buf.len() != model.len() + k {
                        return fail("skip-length", format!("step {}: skip({}) with {} free gives len {} (expected {})", step, n, cap - model.len(), buf.len(), model.len() + k));
                    }
                    let dm = buf.data_mut();
                    if dm.len() != model.len() + k {
                        return fail("data-mut-length", format!("step {}: data_mut() has {} octets, len() says {}", step, dm.len(), model.len() + k));
                    }
                    let mut head = Vec::with_capacity(k);
                    for i in 0..k {
                        dm[i] = pattern(i, *seed);
                        head.push(pattern(i, *seed));
                    }
                    head.extend_from_slice(&model);
                    model = head;
                }
                Op::Reset => {
                    buf.reset();
                    model.clear();
                    bookmark = None;
                    dirty = false;
                }
                Op::SetBookmark(delta) => {
                    buf.set_bookmark(*delta);
                    bookmark = Some((model.len(), *delta));
                }
                Op::GetBookmark => {
                    if let Some((len_at, delta)) = bookmark {
                        // bookmark = (cap - len_at) + delta ; get = bookmark - (cap - len_now)
                        let now = model.len();
                        if now + delta >= len_at {
                            let want = now + delta - len_at;
                            let got = buf.get_bookmark();
                            if got != want {
                                return fail("bookmark", format!("step {}: get_bookmark() = {}, expected {}", step, got, want));
                            }
                        }
                    }
                }
                Op::RecvLike(n, seed) => {
                    // what recv_socket does: the whole storage is handed out for writing, then as_slice(n) is read
                    let n = (*n).min(cap);
                    {
                        let raw: &mut [MaybeUninit<u8>] = buf.as_mut();
                        if raw.len() != cap {
                            return fail("raw-storage-length", format!("step {}: raw storage has {} octets, capacity is {}", step, raw.len(), cap));
                        }
                        for (i, x) in raw.iter_mut().enumerate() {
                            x.write(pattern(i, *seed));
                        }
                    }
                    let s = buf.as_slice(n);
                    if s.len() != n || s.iter().enumerate().any(|(i, x)| *x != pattern(i, *seed)) {
                        return fail("as-slice", format!("step {}: as_slice({}) does not return the first {} octets written", step, n, n));
                    }
                    let pos = cap - model.len();
                    for (j, m) in model.iter_mut().enumerate() {
                        *m = pattern(pos + j, *seed);
                    }
                }
                Op::Check => {}
            }
            // invariants after every step
            if buf.len() != model.len() || buf.free() != cap - model.len() || buf.is_empty() != model.is_empty() || buf.is_full() != (model.len() == cap) {
                return fail("buffer-accounting", format!("step {} ({:?}): len/free/is_empty/is_full = {}/{}/{}/{}, model holds {} of {}", step, short(op), buf.len(), buf.free(), buf.is_empty(), buf.is_full(), model.len(), cap));
            }
            if buf.data() != &model[..] {
                let n = buf.data().iter().zip(model.iter()).take_while(|(a, b)| a == b).count();
                return fail("buffer-content", format!("step {} ({:?}): data() differs from the model at offset {} of {}", step, short(op), n, model.len()));
            }
            let am: &mut [u8] = buf.as_mut();
            if am.len() != model.len() {
                return fail("as-mut-length", format!("step {}: as_mut() has {} octets", step, am.len()));
            }
        }
        let _ = dirty;
        Ok(Info { nontrivial: oob > 0, key: hash_of(&ops), classes: vec![if oob > 0 { "buffer:hit_out_of_buffer_and_continued" } else { "buffer:no_overflow" }] })
    })
}

fn short(op: &Op) -> String {
    match op {
        Op::Push(d) => format!("Push({})", d.len()),
        Op::PushTagged(t, d) => format!("PushTagged({}, {})", t, d.len()),
        o => format!("{:?}", o),
    }
}

/// Byte-coded interpreter input for the fuzz target.
pub fn decode_ops(data: &[u8]) -> Vec<Op> {
    let mut ops = Vec::new();
    let mut i = 0;
    let sizes = [0usize, 1, 2, 3, 126, 127, 128, 129, 254, 255, 256, 257, 1000, 4000, 4076, 4077, 4078, 4079, 4080, 4081, 5000];
    while i + 2 < data.len() && ops.len() < 200 {
        let code = data[i] % 12;
        let a = data[i + 1];
        let b = data[i + 2];
        i += 3;
        let sz = if a & 0x80 != 0 { sizes[(a & 0x7f) as usize % sizes.len()] } else { (a as usize) | (((b & 0x0f) as usize) << 8) };
        let fill = |n: usize, s: u8| (0..n).map(|k| pattern(k, s)).collect::<Vec<u8>>();
        ops.push(match code {
            0 | 1 => Op::Push(fill(sz.min(6000), b)),
            2 => Op::PushU8(b),
            3 | 4 => Op::PushTagLen(b, sz.min(65535)),
            5 | 6 => Op::PushTagged(b, fill(sz.min(6000), a)),
            7 => Op::SkipFill(sz, b),
            8 => Op::Reset,
            9 => Op::SetBookmark((a % 16) as usize),
            10 => Op::GetBookmark,
            _ => Op::RecvLike(sz, b),
        });
    }
    ops
}
