// Verification harness compiled *inside* a mirror of the gufo_snmp crate
// (see py/vlib/build.py): it can name pub(crate) items and private modules.
pub mod buffer_model;
pub mod fuzz_entry;
pub mod props;
pub mod refenc;
pub mod runner;
