//! E2 properties (proptest) over the library's own Rust functions.
use super::refenc as re;
use super::runner::{fail, guard, hash_of, hex, run_enum, run_prop, Fail, Info, Stats};
use crate::ber::*;
use crate::buf::Buffer;
use crate::snmp::get::SnmpGet;
use crate::snmp::getbulk::SnmpGetBulk;
use crate::snmp::msg::v3::{MsgData, ScopedPdu, UsmParameters};
use crate::snmp::msg::{SnmpV1Message, SnmpV2cMessage, SnmpV3Message};
use crate::snmp::pdu::SnmpPdu;
use crate::snmp::value::SnmpValue;
use proptest::prelude::*;
use std::sync::Mutex;

// ------------------------------------------------------------------ generators
const ARC_BOUNDS: [u32; 16] = [0, 1, 39, 40, 127, 128, 129, 255, 256, 16383, 16384, 16385, (1 << 21) - 1, 1 << 21, (1 << 28) - 1, u32::MAX];

fn arc() -> impl Strategy<Value = u32> {
    prop_oneof![3 => 0u32..21, 1 => 0u32..301, 2 => prop::sample::select(ARC_BOUNDS.to_vec()), 1 => any::<u32>(), 1 => (1u32 << 28)..=u32::MAX]
}

fn oid_arcs(max_len: usize) -> impl Strategy<Value = Vec<u32>> {
    (0u32..3, 0u32..40, prop::collection::vec(arc(), 0..max_len - 1)).prop_map(|(a, b, rest)| {
        let mut v = vec![a, b];
        v.extend(rest);
        v
    })
}

fn int_boundaries() -> Vec<i64> {
    let mut out = vec![0i64, 1, -1, 127, 128, -128, -129, 255, 256, -32767, -32768, -65535, i64::MAX, i64::MIN, i64::MIN + 1];
    for k in 1..=8u32 {
        for sh in [8 * k - 1, 8 * k] {
            if sh >= 64 {
                continue;
            }
            let base = 1i128 << sh;
            for d in -2i128..=2 {
                for s in [1i128, -1] {
                    let v = s * base + d;
                    if v >= i64::MIN as i128 && v <= i64::MAX as i128 {
                        out.push(v as i64);
                    }
                }
            }
        }
    }
    out.sort();
    out.dedup();
    out
}

fn int_value() -> impl Strategy<Value = i64> {
    let b = int_boundaries();
    let b2 = b.clone();
    prop_oneof![
        2 => prop::sample::select(b),
        2 => any::<i64>(),
        1 => -70000i64..70000,
        // +-2^16 neighbourhood of a boundary
        3 => (prop::sample::select(b2), -65536i64..65536).prop_map(|(x, d)| x.saturating_add(d)),
        1 => i64::MIN..(i64::MIN + (1 << 56)),
    ]
}

fn near_boundary(v: i64) -> bool {
    let a = (v as i128).abs();
    for k in 1..=8u32 {
        for sh in [8 * k - 1, 8 * k] {
            let b = 1i128 << sh;
            if (a - b).abs() <= 65536 {
                return true;
            }
        }
    }
    false
}

// ------------------------------------------------------------------ C15: INTEGER
fn check_int(v: &i64) -> Result<Info, Fail> {
    let v = *v;
    guard(move || {
        let mut buf = Buffer::default();
        let si: SnmpInt = v.into();
        if let Err(e) = si.push_ber(&mut buf) {
            return fail("int-encode-error", format!("push_ber({}) failed: {:?}", v, e));
        }
        let want = re::enc_int(v);
        if buf.data() != &want[..] {
            return fail("int-encoding", format!("INTEGER {} encoded as {}, minimal X.690 form is {}", v, hex(buf.data()), hex(&want)));
        }
        let data = buf.data().to_vec();
        match SnmpInt::from_ber(&data) {
            Ok((tail, x)) => {
                let back: i64 = x.into();
                if back != v || !tail.is_empty() {
                    return fail("int-roundtrip", format!("decode(encode({})) = {} with {} octets left ({})", v, back, tail.len(), hex(&data)));
                }
            }
            Err(e) => return fail("int-roundtrip", format!("decode(encode({})) failed: {:?}", v, e)),
        }
        Ok(Info { nontrivial: v < 0 || near_boundary(v), key: v as u64, classes: vec![if v < 0 { "int:negative" } else { "int:nonnegative" }] })
    })
}

/// decoder against the reference encoder (C02 at Rust speed; also the 8-octet negative case)
fn check_int_decode(v: &i64) -> Result<Info, Fail> {
    let v = *v;
    guard(move || {
        let data = re::enc_int(v);
        match SnmpInt::from_ber(&data) {
            Ok((tail, x)) => {
                let back: i64 = x.into();
                if back != v || !tail.is_empty() {
                    return fail("int-decode", format!("{} decodes to {} (expected {})", hex(&data), back, v));
                }
            }
            Err(e) => return fail("int-decode", format!("{} rejected: {:?}", hex(&data), e)),
        }
        Ok(Info { nontrivial: v < 0 || near_boundary(v), key: (v as u64) ^ 0x5555, classes: vec!["int:decode"] })
    })
}

pub fn c15_int(st: &Mutex<Stats>, thorough: bool, seed: u64) {
    let render = |v: &i64| format!("INTEGER {}", v);
    // exhaustive: every value of 1..2 (quick) or 1..3 (thorough) content octets
    let lim: i64 = if thorough { 1 << 23 } else { 1 << 15 };
    run_enum(st, -lim..lim, check_int, render);
    st.lock().unwrap().merge_count("int:exhaustive_values", (2 * lim) as u64);
    // neighbourhoods of every boundary
    let w: i64 = if thorough { 1 << 16 } else { 1 << 11 };
    for b in int_boundaries() {
        let lo = b.saturating_sub(w);
        let hi = b.saturating_add(w);
        run_enum(st, lo..=hi, check_int, render);
        run_enum(st, (lo..=hi).step_by(if thorough { 1 } else { 7 }), check_int_decode, render);
    }
    run_prop(st, int_value(), if thorough { 5_000_000 } else { 300_000 }, seed, check_int, render);
    run_prop(st, int_value(), if thorough { 2_000_000 } else { 100_000 }, seed ^ 1, check_int_decode, render);
}

// ------------------------------------------------------------------ C15: OID / NULL / OCTET STRING
fn check_oid(arcs: &Vec<u32>) -> Result<Info, Fail> {
    let arcs = arcs.clone();
    guard(move || {
        let text = re::oid_text(&arcs);
        let oid = match SnmpOid::try_from(text.as_str()) {
            Ok(o) => o,
            Err(e) => return fail("oid-refused", format!("valid OID {} refused: {:?}", text, e)),
        };
        let mut buf = Buffer::default();
        if let Err(e) = oid.push_ber(&mut buf) {
            return fail("oid-encode-error", format!("{}: {:?}", text, e));
        }
        let want = re::tlv(0x06, &re::oid_content(&arcs));
        if buf.data() != &want[..] {
            return fail("oid-encoding", format!("OID {} encoded as {}, canonical form is {}", text, hex(buf.data()), hex(&want)));
        }
        let data = buf.data().to_vec();
        match SnmpOid::from_ber(&data) {
            Ok((tail, o2)) => {
                let s = String::try_from(&o2).map_err(|e| Fail { sig: "oid-print".into(), msg: format!("{:?}", e) })?;
                if s != text || !tail.is_empty() || o2 != oid {
                    return fail("oid-roundtrip", format!("print(decode(encode({}))) = {} ({} left)", text, s, tail.len()));
                }
            }
            Err(e) => return fail("oid-roundtrip", format!("decode(encode({})) failed: {:?}", text, e)),
        }
        let multi = arcs[2..].iter().any(|a| *a >= 128);
        Ok(Info { nontrivial: multi || data.len() >= 130, key: hash_of(&arcs), classes: vec![if multi { "oid:multi_octet_arc" } else { "oid:small_arcs" }] })
    })
}

fn check_octets(d: &Vec<u8>) -> Result<Info, Fail> {
    let d = d.clone();
    guard(move || {
        let mut buf = Buffer::default();
        if buf.push_tagged(TAG_OCTET_STRING, &d).is_err() {
            return fail("octets-encode-error", format!("{} octets", d.len()));
        }
        let want = re::tlv(0x04, &d);
        if buf.data() != &want[..] {
            return fail("octets-encoding", format!("OCTET STRING of {} octets: header {}", d.len(), hex(&buf.data()[..buf.data().len().min(6)])));
        }
        let data = buf.data().to_vec();
        match SnmpOctetString::from_ber(&data) {
            Ok((tail, x)) => {
                if x.0 != &d[..] || !tail.is_empty() {
                    return fail("octets-roundtrip", format!("{} octets", d.len()));
                }
            }
            Err(e) => return fail("octets-roundtrip", format!("{:?}", e)),
        }
        let n = d.len();
        Ok(Info { nontrivial: n >= 128, key: hash_of(&d), classes: vec![if n < 128 { "octets:short_form" } else if n < 256 { "octets:0x81" } else { "octets:0x82" }] })
    })
}

pub fn c15_oid_etc(st: &Mutex<Stats>, thorough: bool, seed: u64) {
    run_prop(st, oid_arcs(128), if thorough { 2_000_000 } else { 100_000 }, seed, check_oid, |a| format!("OID {}", re::oid_text(a)));
    let lens = prop_oneof![3 => 0usize..140, 2 => 120usize..270, 1 => 0usize..4000];
    let data = lens.prop_flat_map(|n| prop::collection::vec(any::<u8>(), n..=n));
    run_prop(st, data, if thorough { 200_000 } else { 20_000 }, seed, check_octets, |d| format!("OCTET STRING of {} octets", d.len()));
    // NULL
    let r = guard(|| {
        let mut buf = Buffer::default();
        SnmpNull {}.push_ber(&mut buf).map_err(|e| Fail { sig: "null-encode".into(), msg: format!("{:?}", e) })?;
        if buf.data() != &[5u8, 0][..] {
            return fail("null-encoding", hex(buf.data()));
        }
        let d = buf.data().to_vec();
        match SnmpNull::from_ber(&d) {
            Ok((t, _)) if t.is_empty() => Ok(()),
            _ => fail("null-roundtrip", hex(&d)),
        }
    });
    let mut s = st.lock().unwrap();
    match r {
        Ok(()) => {
            s.evaluations += 1;
        }
        Err(f) => {
            if s.failure.is_none() {
                s.failure = Some((f.sig, f.msg, "NULL".into()));
            }
        }
    }
}

// ------------------------------------------------------------------ C15: messages
#[derive(Debug, Clone)]
pub struct MsgCase {
    pub ver: u8,     // 0 v1, 1 v2c, 3 v3
    pub kind: u8,    // 0 get, 1 getnext, 2 getbulk
    pub community: Vec<u8>,
    pub request_id: i64,
    pub nonrep: i64,
    pub maxrep: i64,
    pub oids: Vec<Vec<u32>>,
    // v3
    pub msg_id: i64,
    pub flags: (bool, bool, bool),
    pub engine_id: Vec<u8>,
    pub boots: i64,
    pub time: i64,
    pub user: Vec<u8>,
    pub auth: bool,
    pub priv_: Option<Vec<u8>>, // Some(ciphertext) -> Encrypted msgData
}

fn id31() -> impl Strategy<Value = i64> {
    prop_oneof![2 => 0i64..=0x7fff_ffff, 1 => prop::sample::select(vec![0i64, 1, 127, 128, 255, 256, 32767, 32768, 65535, 65536, 0x7f_ffff, 0x80_0000, 0x7fff_ffff])]
}

fn small_bytes(max: usize) -> impl Strategy<Value = Vec<u8>> {
    prop_oneof![4 => prop::collection::vec(any::<u8>(), 0..24), 1 => prop::collection::vec(any::<u8>(), 0..max)]
}

pub fn msg_case() -> impl Strategy<Value = MsgCase> {
    (
        (prop::sample::select(vec![0u8, 1, 3]), 0u8..3, small_bytes(300), id31(), id31(), id31()),
        // a few long OIDs (>= 128 content octets: long-form length *inside* a varbind) besides many short ones
        prop_oneof![3 => prop::collection::vec(oid_arcs(12), 0..6), 1 => prop::collection::vec(oid_arcs(16), 0..80), 2 => prop::collection::vec(oid_arcs(128), 0..4)],
        (id31(), any::<(bool, bool, bool)>(), small_bytes(300), id31(), id31(), small_bytes(300), any::<bool>(), prop::option::of(small_bytes(600))),
    )
        .prop_map(|((ver, kind, community, request_id, nonrep, maxrep), oids, (msg_id, flags, engine_id, boots, time, user, auth, priv_))| MsgCase {
            ver,
            kind: if ver == 0 && kind == 2 { 1 } else { kind },
            community,
            request_id,
            nonrep,
            maxrep,
            oids,
            msg_id,
            flags,
            engine_id,
            boots,
            time,
            user,
            auth,
            priv_,
        })
}

fn ref_pdu(c: &MsgCase) -> Vec<u8> {
    let mut vbl = Vec::new();
    for o in &c.oids {
        let mut vb = re::tlv(0x06, &re::oid_content(o));
        vb.extend_from_slice(&[5, 0]);
        vbl.extend(re::tlv(0x30, &vb));
    }
    let mut body = re::enc_int(c.request_id);
    if c.kind == 2 {
        body.extend(re::enc_int(c.nonrep));
        body.extend(re::enc_int(c.maxrep));
    } else {
        body.extend(re::enc_int(0));
        body.extend(re::enc_int(0));
    }
    body.extend(re::tlv(0x30, &vbl));
    re::tlv([0xa0, 0xa1, 0xa5][c.kind as usize], &body)
}

fn lib_pdu<'a>(c: &'a MsgCase, oids: &'a [SnmpOid<'a>]) -> SnmpPdu<'a> {
    let vars: Vec<SnmpOid> = oids.to_vec();
    match c.kind {
        0 => SnmpPdu::GetRequest(SnmpGet { request_id: c.request_id, vars }),
        1 => SnmpPdu::GetNextRequest(SnmpGet { request_id: c.request_id, vars }),
        _ => SnmpPdu::GetBulkRequest(SnmpGetBulk { request_id: c.request_id, non_repeaters: c.nonrep, max_repetitions: c.maxrep, vars }),
    }
}

fn pdu_fields(p: &SnmpPdu) -> (u8, i64, i64, i64, Vec<Vec<u8>>) {
    match p {
        SnmpPdu::GetRequest(g) => (0, g.request_id, 0, 0, g.vars.iter().map(|o| o.0.to_vec()).collect()),
        SnmpPdu::GetNextRequest(g) => (1, g.request_id, 0, 0, g.vars.iter().map(|o| o.0.to_vec()).collect()),
        SnmpPdu::GetBulkRequest(g) => (2, g.request_id, g.non_repeaters, g.max_repetitions, g.vars.iter().map(|o| o.0.to_vec()).collect()),
        _ => (9, 0, 0, 0, vec![]),
    }
}

fn check_msg(c: &MsgCase) -> Result<Info, Fail> {
    let c = c.clone();
    guard(move || {
        let texts: Vec<String> = c.oids.iter().map(|o| re::oid_text(o)).collect();
        let mut oids = Vec::new();
        for t in &texts {
            oids.push(SnmpOid::try_from(t.as_str()).map_err(|e| Fail { sig: "oid-refused".into(), msg: format!("{}: {:?}", t, e) })?);
        }
        let want_fields = {
            let (nr, mr) = if c.kind == 2 { (c.nonrep, c.maxrep) } else { (0, 0) };
            (c.kind, c.request_id, nr, mr, c.oids.iter().map(|o| re::oid_content(o)).collect::<Vec<_>>())
        };
        let mut buf = Buffer::default();
        let pdu_ref = ref_pdu(&c);
        let (enc, want): (Result<(), crate::error::SnmpError>, Vec<u8>) = if c.ver != 3 {
            let mut body = re::enc_int(c.ver as i64);
            body.extend(re::tlv(0x04, &c.community));
            body.extend(&pdu_ref);
            let want = re::tlv(0x30, &body);
            let r = if c.ver == 0 {
                SnmpV1Message { community: &c.community, pdu: lib_pdu(&c, &oids) }.push_ber(&mut buf)
            } else {
                SnmpV2cMessage { community: &c.community, pdu: lib_pdu(&c, &oids) }.push_ber(&mut buf)
            };
            (r, want)
        } else {
            let auth_params: &[u8] = if c.auth { &[0u8; 12] } else { &[] };
            let salt = [0xa5u8; 8];
            let (data_ref, privacy_params): (Vec<u8>, &[u8]) = match &c.priv_ {
                Some(ct) => (re::tlv(0x04, ct), &salt),
                None => {
                    let mut sc = re::tlv(0x04, &c.engine_id);
                    sc.extend(re::tlv(0x04, &[]));
                    sc.extend(&pdu_ref);
                    (re::tlv(0x30, &sc), &[])
                }
            };
            let mut usm = re::tlv(0x04, &c.engine_id);
            usm.extend(re::enc_int(c.boots));
            usm.extend(re::enc_int(c.time));
            usm.extend(re::tlv(0x04, &c.user));
            usm.extend(re::tlv(0x04, auth_params));
            usm.extend(re::tlv(0x04, privacy_params));
            let usm = re::tlv(0x30, &usm);
            let flags = (c.flags.0 as u8) | ((c.flags.1 as u8) << 1) | ((c.flags.2 as u8) << 2);
            // msgMaxSize is the library's own constant: read it back from the emitted message below
            let msg = SnmpV3Message {
                msg_id: c.msg_id,
                flag_auth: c.flags.0,
                flag_priv: c.flags.1,
                flag_report: c.flags.2,
                usm: UsmParameters { engine_id: &c.engine_id, engine_boots: c.boots, engine_time: c.time, user_name: &c.user, auth_params, privacy_params },
                data: match &c.priv_ {
                    Some(ct) => MsgData::Encrypted(ct),
                    None => MsgData::Plaintext(ScopedPdu { engine_id: &c.engine_id, pdu: lib_pdu(&c, &oids) }),
                },
            };
            let r = msg.push_ber(&mut buf);
            // find msgMaxSize in the output with the strict reference decoder
            let mut max_size = 2048i64;
            if r.is_ok() {
                let top = re::expect(buf.data(), 0x30).map_err(|e| Fail { sig: "msg-not-strict".into(), msg: e })?;
                let ver = re::expect(top.content, 0x02).map_err(|e| Fail { sig: "msg-not-strict".into(), msg: e })?;
                let hdr = re::expect(ver.rest, 0x30).map_err(|e| Fail { sig: "msg-not-strict".into(), msg: e })?;
                let mid = re::expect(hdr.content, 0x02).map_err(|e| Fail { sig: "msg-not-strict".into(), msg: e })?;
                let ms = re::expect(mid.rest, 0x02).map_err(|e| Fail { sig: "msg-not-strict".into(), msg: e })?;
                max_size = re::dec_int(ms.content).map_err(|e| Fail { sig: "msg-not-strict".into(), msg: e })?;
                if !(484..=0x7fff_ffff).contains(&max_size) {
                    return fail("msg-max-size", format!("msgMaxSize {}", max_size));
                }
            }
            let mut hdr = re::enc_int(c.msg_id);
            hdr.extend(re::enc_int(max_size));
            hdr.extend(re::tlv(0x04, &[flags]));
            hdr.extend(re::enc_int(3));
            let mut body = re::enc_int(3);
            body.extend(re::tlv(0x30, &hdr));
            body.extend(re::tlv(0x04, &usm));
            body.extend(&data_ref);
            (r, re::tlv(0x30, &body))
        };
        let cap = buf.free() + buf.len();
        match enc {
            Err(crate::error::SnmpError::OutOfBuffer) => {
                if want.len() + 16 <= cap {
                    return fail("msg-fitting-refused", format!("message of {} octets refused with OutOfBuffer (capacity {})", want.len(), cap));
                }
                return Ok(Info { nontrivial: false, key: 0, classes: vec!["msg:oversize"] });
            }
            Err(e) => return fail("msg-encode-error", format!("{:?}", e)),
            Ok(()) => {}
        }
        if buf.data() != &want[..] {
            let n = buf.data().iter().zip(want.iter()).take_while(|(a, b)| a == b).count();
            return fail("msg-encoding", format!("v{} message differs from the minimal definite-length encoding at octet {} (got {} octets, expected {}): {} vs {}", c.ver, n, buf.data().len(), want.len(), hex(&buf.data()[n.saturating_sub(4)..(n + 8).min(buf.data().len())]), hex(&want[n.saturating_sub(4)..(n + 8).min(want.len())])));
        }
        // library decode must give the original back
        let data = buf.data().to_vec();
        let got = if c.ver == 0 {
            SnmpV1Message::try_from(&data[..]).map(|m| (m.community.to_vec(), pdu_fields(&m.pdu)))
        } else if c.ver == 1 {
            SnmpV2cMessage::try_from(&data[..]).map(|m| (m.community.to_vec(), pdu_fields(&m.pdu)))
        } else {
            SnmpV3Message::try_from(&data[..]).and_then(|m| {
                if m.msg_id != c.msg_id || (m.flag_auth, m.flag_priv, m.flag_report) != c.flags || m.usm.engine_id != &c.engine_id[..] || m.usm.engine_boots != c.boots || m.usm.engine_time != c.time || m.usm.user_name != &c.user[..] {
                    return Err(crate::error::SnmpError::InvalidData);
                }
                match (&m.data, &c.priv_) {
                    (MsgData::Encrypted(x), Some(ct)) if *x == &ct[..] => Ok((vec![], want_fields.clone())),
                    (MsgData::Plaintext(sp), None) if sp.engine_id == &c.engine_id[..] => Ok((vec![], pdu_fields(&sp.pdu))),
                    _ => Err(crate::error::SnmpError::InvalidData),
                }
            })
        };
        match got {
            Ok((comm, fields)) => {
                if (c.ver != 3 && comm != c.community) || fields != want_fields {
                    return fail("msg-roundtrip", format!("v{} decode(encode(m)) != m", c.ver));
                }
            }
            Err(e) => return fail("msg-roundtrip", format!("v{} decode(encode(m)) failed: {:?}", c.ver, e)),
        }
        let long = want.len() >= 128;
        Ok(Info { nontrivial: long || c.oids.iter().any(|o| o[2..].iter().any(|a| *a >= 128)), key: hash_of(&want), classes: vec![["msg:v1", "msg:v2c", "", "msg:v3"][c.ver as usize], if long { "msg:long_form" } else { "msg:short" }] })
    })
}

pub fn c15_msgs(st: &Mutex<Stats>, thorough: bool, seed: u64) {
    run_prop(st, msg_case(), if thorough { 1_000_000 } else { 60_000 }, seed, check_msg, |c| format!("{:?}", c));
}

// The scoped PDU of an encrypted request is serialised into the cipher's own buffer, *behind* the padding the cipher put
// there first - the one place where an encoder does not start from an empty buffer.  Oracle: the ciphertext has the length
// of the reference encoding plus less than one cipher block of padding (whole blocks for DES), and the library's own decryption and decoder
// give the scoped PDU back unchanged.  (That the cipher itself is RFC 3414 / 3826 is C11's question, decided in E1 against
// the independent reference crypto.)
fn check_priv_msg(c: &MsgCase) -> Result<Info, Fail> {
    use crate::privacy::{PrivKey, SnmpPriv};
    let c = c.clone();
    guard(move || {
        let texts: Vec<String> = c.oids.iter().map(|o| re::oid_text(o)).collect();
        let mut oids = Vec::new();
        for t in &texts {
            oids.push(SnmpOid::try_from(t.as_str()).map_err(|e| Fail { sig: "oid-refused".into(), msg: format!("{}: {:?}", t, e) })?);
        }
        let (nr, mr) = if c.kind == 2 { (c.nonrep, c.maxrep) } else { (0, 0) };
        let want_fields = (c.kind, c.request_id, nr, mr, c.oids.iter().map(|o| re::oid_content(o)).collect::<Vec<_>>());
        let mut sc = re::tlv(0x04, &c.engine_id);
        sc.extend(re::tlv(0x04, &[]));
        sc.extend(ref_pdu(&c));
        let want = re::tlv(0x30, &sc);
        let alg: u8 = if c.msg_id & 1 == 0 { 1 } else { 2 };
        let name = if alg == 1 { "des" } else { "aes128" };
        let mut key = [0x5au8; 16];
        for (i, b) in c.user.iter().take(16).enumerate() {
            key[i] ^= *b;
        }
        let mk = || -> Result<PrivKey, Fail> {
            let mut k = PrivKey::new(alg).map_err(|e| Fail { sig: "priv-key".into(), msg: format!("{:?}", e) })?;
            k.as_localized(&key).map_err(|e| Fail { sig: "priv-key".into(), msg: format!("{:?}", e) })?;
            Ok(k)
        };
        let mut k1 = mk()?;
        let sp = ScopedPdu { engine_id: &c.engine_id, pdu: lib_pdu(&c, &oids) };
        let (ct, salt) = match k1.encrypt(&sp, c.boots as u32, c.time as u32) {
            Ok((ct, salt)) => (ct.to_vec(), salt.to_vec()),
            Err(crate::error::SnmpError::OutOfBuffer) => {
                if want.len() + 64 <= 4000 {
                    return fail(&format!("encrypted-fitting-refused:{}", name), format!("scoped PDU of {} octets refused with OutOfBuffer", want.len()));
                }
                return Ok(Info { nontrivial: false, key: 0, classes: vec!["privmsg:oversize"] });
            }
            Err(e) => return fail(&format!("encrypted-encode-error:{}", name), format!("{:?}", e)),
        };
        // DES-CBC needs whole blocks; AES-CFB does not, but trailing padding of less than one block is legal and the library adds it
        let block = if alg == 1 { 8 } else { 16 };
        let ok_len = ct.len() >= want.len() && ct.len() - want.len() < block && (alg != 1 || ct.len() % 8 == 0);
        if !ok_len {
            return fail(&format!("encrypted-length:{}", name), format!("{} ciphertext of {} octets for a scoped PDU whose minimal encoding has {} (kind {})", name, ct.len(), want.len(), c.kind));
        }
        let mut k2 = mk()?;
        let usm = UsmParameters { engine_id: &c.engine_id, engine_boots: c.boots, engine_time: c.time, user_name: &[], auth_params: &[], privacy_params: &salt };
        match k2.decrypt(&ct, &usm) {
            Ok(sp2) => {
                if sp2.engine_id != &c.engine_id[..] || pdu_fields(&sp2.pdu) != want_fields {
                    return fail(&format!("encrypted-roundtrip:{}", name), format!("decrypt(encrypt(scoped PDU)) != scoped PDU (kind {}, {} oids)", c.kind, c.oids.len()));
                }
            }
            Err(e) => return fail(&format!("encrypted-roundtrip:{}", name), format!("the library cannot read back its own encrypted scoped PDU (kind {}, {} oids, {} octets): {:?}", c.kind, c.oids.len(), want.len(), e)),
        }
        let long = want.len() >= 128;
        Ok(Info { nontrivial: long || c.kind == 2 || !c.oids.is_empty(), key: hash_of(&(want, alg)), classes: vec![if alg == 1 { "privmsg:des" } else { "privmsg:aes128" }, ["privmsg:get", "privmsg:getnext", "privmsg:getbulk"][c.kind as usize], if long { "privmsg:long_form" } else { "privmsg:short" }] })
    })
}

pub fn c15_priv_msgs(st: &Mutex<Stats>, thorough: bool, seed: u64) {
    run_prop(st, msg_case().prop_map(|mut c| { c.ver = 3; c }), if thorough { 400_000 } else { 30_000 }, seed, check_priv_msg, |c| format!("{:?}", c));
}

// ------------------------------------------------------------------ C16 / C02: typed values and extents
#[derive(Debug, Clone)]
pub struct ValCase {
    pub kind: u8,
    pub tlv: Vec<u8>,
    pub render: String, // canonical rendering of the model value ("" = only self-consistency is checked)
    pub suffix: Vec<u8>,
}

pub const K_BOOL: u8 = 0;
pub const K_INT: u8 = 1;
pub const K_NULL: u8 = 2;
pub const K_OCTETS: u8 = 3;
pub const K_OID: u8 = 4;
pub const K_OBJDESC: u8 = 5;
pub const K_REAL: u8 = 6;
pub const K_IP: u8 = 7;
pub const K_C32: u8 = 8;
pub const K_G32: u8 = 9;
pub const K_TT: u8 = 10;
pub const K_OPAQUE: u8 = 11;
pub const K_C64: u8 = 12;
pub const K_U32: u8 = 13;
pub const K_RELOID: u8 = 14;
pub const K_SEQ: u8 = 15;
pub const K_NSO: u8 = 16;
pub const K_NSI: u8 = 17;
pub const K_EOM: u8 = 18;

fn lenform() -> impl Strategy<Value = u8> {
    prop_oneof![5 => Just(0u8), 1 => Just(1u8), 1 => Just(2u8), 1 => Just(3u8)]
}

fn suffix() -> impl Strategy<Value = Vec<u8>> {
    prop_oneof![
        2 => Just(vec![]),
        2 => prop::collection::vec(any::<u8>(), 1..16),
        2 => prop::collection::vec(prop::sample::select(b"0123456789.-+eE ".to_vec()), 1..12),
        2 => prop::collection::vec(0x80u8..=0xff, 1..8),
        1 => Just(vec![0x02, 0x01, 0x07]),
        1 => Just(vec![0x05, 0x00]),
        1 => Just(vec![0x00]),
        1 => prop::collection::vec(any::<u8>(), 1..64),
    ]
}

fn f64_render(x: f64) -> String {
    if x.is_nan() {
        "real:nan".into()
    } else {
        format!("real:{:016x}", x.to_bits())
    }
}

fn real_case() -> impl Strategy<Value = (Vec<u8>, String)> {
    prop_oneof![
        1 => Just((vec![], f64_render(0.0))),
        1 => Just((vec![0x40], f64_render(f64::INFINITY))),
        1 => Just((vec![0x41], f64_render(f64::NEG_INFINITY))),
        1 => Just((vec![0x42], "real:nan".to_string())),
        1 => Just((vec![0x43], f64_render(-0.0))),
        3 => (-1_000_000_000i64..1_000_000_000).prop_map(|n| { let mut c = vec![1u8]; c.extend(n.to_string().bytes()); (c, f64_render(n as f64)) }),
        3 => (-1_000_000i64..1_000_000, 0u32..5).prop_map(|(n, d)| {
            let s = format!("{}{}.{}", if n < 0 { "-" } else { "" }, n.abs() / 10i64.pow(d), if d == 0 { "0".to_string() } else { format!("{:0width$}", n.abs() % 10i64.pow(d), width = d as usize) });
            let mut c = vec![2u8]; c.extend(s.bytes()); (c, f64_render(s.parse::<f64>().unwrap()))
        }),
        3 => (-1_000_000i64..1_000_000, -20i32..20).prop_map(|(n, e)| { let s = format!("{}E{}", n, e); let mut c = vec![3u8]; c.extend(s.bytes()); (c, f64_render(s.parse::<f64>().unwrap())) }),
        // binary: sign, mantissa < 2^53, base 2/8/16, F 0..3, exponent, exponent form
        8 => (any::<bool>(), prop_oneof![1u64..256, 1u64..(1 << 32), (1u64 << 32)..(1u64 << 53)], 0u8..3, 0u8..4, -200i32..200, 0u8..4).prop_map(|(neg, m, bb, f, e, ef)| {
            let bits = [1i32, 3, 4][bb as usize];
            let ebytes = re::int_content(e as i64);
            let mut c = Vec::new();
            let (form, ebytes) = match ef {
                0 => ((ebytes.len() as u8 - 1).min(2), ebytes),
                1 => { let mut x = ebytes; while x.len() < 2 { x.insert(0, if e < 0 { 0xff } else { 0 }); } (1u8, x) }
                2 => { let mut x = ebytes; while x.len() < 3 { x.insert(0, if e < 0 { 0xff } else { 0 }); } (2u8, x) }
                _ => (3u8, ebytes),
            };
            c.push(0x80 | ((neg as u8) << 6) | (bb << 4) | (f << 2) | form);
            if form == 3 { c.push(ebytes.len() as u8); }
            c.extend(&ebytes);
            let mb = m.to_be_bytes(); let mut s = 0; while s < 7 && mb[s] == 0 { s += 1; }
            c.extend(&mb[s..]);
            // exact: m * 2^(f + bits*e) with m < 2^53 and |exp| small is exactly representable when in range
            let p = f as i32 + bits * e;
            let v = (m as f64) * 2f64.powi(p / 2) * 2f64.powi(p - p / 2);
            (c, f64_render(if neg { -v } else { v }))
        }),
    ]
}

pub fn val_case() -> impl Strategy<Value = ValCase> {
    let v = prop_oneof![
        prop::sample::select(vec![0u8, 1, 0xff, 0x80]).prop_map(|b| (K_BOOL, 0x01u8, vec![b], format!("bool:{}", b != 0))),
        int_value().prop_map(|v| (K_INT, 0x02, re::int_content(v), format!("int:{}", v))),
        Just((K_NULL, 0x05, vec![], "null".to_string())),
        small_bytes(300).prop_map(|d| { let r = format!("bytes:{}", hex(&d)); (K_OCTETS, 0x04, d, r) }),
        oid_arcs(16).prop_map(|a| (K_OID, 0x06, re::oid_content(&a), format!("oid:{}", re::oid_text(&a)))),
        small_bytes(300).prop_map(|d| { let r = format!("bytes:{}", hex(&d)); (K_OBJDESC, 0x07, d, r) }),
        real_case().prop_map(|(c, r)| (K_REAL, 0x09, c, r)),
        any::<[u8; 4]>().prop_map(|b| (K_IP, 0x40, b.to_vec(), format!("ip:{}.{}.{}.{}", b[0], b[1], b[2], b[3]))),
        (any::<u32>(), prop::option::of(any::<bool>())).prop_map(|(v, lz)| (K_C32, 0x41, re::uint_content(v as u64, lz), format!("u:{}", v))),
        (any::<u32>(), prop::option::of(any::<bool>())).prop_map(|(v, lz)| (K_G32, 0x42, re::uint_content(v as u64, lz), format!("u:{}", v))),
        (any::<u32>(), prop::option::of(any::<bool>())).prop_map(|(v, lz)| (K_TT, 0x43, re::uint_content(v as u64, lz), format!("u:{}", v))),
        small_bytes(300).prop_map(|d| { let r = format!("bytes:{}", hex(&d)); (K_OPAQUE, 0x44, d, r) }),
        (prop_oneof![any::<u64>(), (1u64 << 63)..=u64::MAX, Just(u64::MAX)], prop::option::of(any::<bool>())).prop_map(|(v, lz)| (K_C64, 0x46, re::uint_content(v, lz), format!("u:{}", v))),
        (any::<u32>(), prop::option::of(any::<bool>())).prop_map(|(v, lz)| (K_U32, 0x47, re::uint_content(v as u64, lz), format!("u:{}", v))),
        prop::collection::vec(arc(), 1..8).prop_map(|a| { let mut c = Vec::new(); for x in &a { re::arc_bytes(*x as u64, &mut c); } let r = format!("reloid:{}", hex(&c)); (K_RELOID, 0x0d, c, r) }),
        small_bytes(200).prop_map(|d| { let r = format!("seq:{}", hex(&d)); (K_SEQ, 0x30, d, r) }),
        Just((K_NSO, 0x80, vec![], "nosuchobject".to_string())),
        Just((K_NSI, 0x81, vec![], "nosuchinstance".to_string())),
        Just((K_EOM, 0x82, vec![], "endofmibview".to_string())),
    ];
    (v, lenform(), suffix()).prop_map(|((kind, tag, content, render), form, suffix)| {
        // unsigned with a forced leading zero may exceed the natural size; keep as is (legal BER)
        ValCase { kind, tlv: re::tlv_form(tag, &content, form), render, suffix }
    })
}

fn render_value(v: SnmpValue) -> String {
    match v {
        SnmpValue::Bool(x) => format!("bool:{}", bool::from(x)),
        SnmpValue::Int(x) => format!("int:{}", i64::from(x)),
        SnmpValue::Null => "null".into(),
        SnmpValue::OctetString(x) => format!("bytes:{}", hex(x.0)),
        SnmpValue::Oid(x) => format!("oid:{}", String::try_from(&x).unwrap_or_else(|_| "?".into())),
        SnmpValue::ObjectDescriptor(x) => format!("bytes:{}", hex(x.0)),
        SnmpValue::Real(x) => f64_render(f64::from(x)),
        SnmpValue::IpAddress(x) => format!("ip:{}", String::from(&x)),
        SnmpValue::Counter32(x) => format!("u:{}", x.0),
        SnmpValue::Gauge32(x) => format!("u:{}", x.0),
        SnmpValue::TimeTicks(x) => format!("u:{}", x.0),
        SnmpValue::Opaque(x) => format!("bytes:{}", hex(x.0)),
        SnmpValue::Counter64(x) => format!("u:{}", x.0),
        SnmpValue::UInteger32(x) => format!("u:{}", x.0),
        SnmpValue::NoSuchObject => "nosuchobject".into(),
        SnmpValue::NoSuchInstance => "nosuchinstance".into(),
        SnmpValue::EndOfMibView => "endofmibview".into(),
    }
}

pub type Dec = Result<(usize, String), String>; // (remaining length, rendering)

/// Decode with the typed decoder for `kind` (None when only SnmpValue handles it).
pub fn typed_decode(kind: u8, b: &[u8]) -> Option<Dec> {
    macro_rules! d {
        ($t:ty, $f:expr) => {
            Some(match <$t>::from_ber(b) {
                Ok((rest, v)) => Ok((rest.len(), $f(v))),
                Err(e) => Err(format!("{:?}", e)),
            })
        };
    }
    match kind {
        K_BOOL => d!(SnmpBool, |v: SnmpBool| format!("bool:{}", bool::from(v))),
        K_INT => d!(SnmpInt, |v: SnmpInt| format!("int:{}", i64::from(v))),
        K_NULL => d!(SnmpNull, |_v: SnmpNull| "null".to_string()),
        K_OCTETS => d!(SnmpOctetString, |v: SnmpOctetString| format!("bytes:{}", hex(v.0))),
        K_OID => d!(SnmpOid, |v: SnmpOid| format!("oid:{}", String::try_from(&v).unwrap_or_else(|_| "?".into()))),
        K_OBJDESC => d!(SnmpObjectDescriptor, |v: SnmpObjectDescriptor| format!("bytes:{}", hex(v.0))),
        K_REAL => d!(SnmpReal, |v: SnmpReal| f64_render(f64::from(v))),
        K_IP => d!(SnmpIpAddress, |v: SnmpIpAddress| format!("ip:{}", String::from(&v))),
        K_C32 => d!(SnmpCounter32, |v: SnmpCounter32| format!("u:{}", v.0)),
        K_G32 => d!(SnmpGauge32, |v: SnmpGauge32| format!("u:{}", v.0)),
        K_TT => d!(SnmpTimeTicks, |v: SnmpTimeTicks| format!("u:{}", v.0)),
        K_OPAQUE => d!(SnmpOpaque, |v: SnmpOpaque| format!("bytes:{}", hex(v.0))),
        K_C64 => d!(SnmpCounter64, |v: SnmpCounter64| format!("u:{}", v.0)),
        K_U32 => d!(SnmpUInteger32, |v: SnmpUInteger32| format!("u:{}", v.0)),
        K_RELOID => d!(SnmpRelativeOid, |v: SnmpRelativeOid| { let s = format!("{:?}", v); let inner: Vec<u8> = s.trim_start_matches("SnmpRelativeOid(").trim_end_matches(')').trim_matches(|c| c == '[' || c == ']').split(", ").filter(|x| !x.is_empty()).map(|x| x.parse::<u8>().unwrap_or(0)).collect(); format!("reloid:{}", hex(&inner)) }),
        K_SEQ => d!(SnmpSequence, |v: SnmpSequence| format!("seq:{}", hex(v.0))),
        _ => None,
    }
}

pub fn value_decode(b: &[u8]) -> Dec {
    match SnmpValue::from_ber(b) {
        Ok((rest, v)) => Ok((rest.len(), render_value(v))),
        Err(e) => Err(format!("{:?}", e)),
    }
}

fn real_close(a: &str, b: &str) -> bool {
    if a == b {
        return true;
    }
    let pa = a.strip_prefix("real:").and_then(|x| u64::from_str_radix(x, 16).ok());
    let pb = b.strip_prefix("real:").and_then(|x| u64::from_str_radix(x, 16).ok());
    match (pa, pb) {
        (Some(x), Some(y)) => (x as i64 - y as i64).abs() <= 4 && (x >> 63) == (y >> 63),
        _ => false,
    }
}

/// C16 metamorphic relation + C02 value fidelity for one (x, s).
fn check_val(c: &ValCase) -> Result<Info, Fail> {
    let c = c.clone();
    guard(move || {
        let mut xs = c.tlv.clone();
        xs.extend(&c.suffix);
        let is_value_kind = c.kind != K_RELOID && c.kind != K_SEQ;
        let mut decoders: Vec<(&str, Dec, Dec)> = Vec::new();
        if let Some(alone) = typed_decode(c.kind, &c.tlv) {
            decoders.push(("typed", alone, typed_decode(c.kind, &xs).unwrap()));
        }
        if is_value_kind {
            decoders.push(("SnmpValue", value_decode(&c.tlv), value_decode(&xs)));
        }
        for (name, alone, with) in decoders {
            let kindname = c.render.split(':').next().unwrap_or("");
            match (&alone, &with) {
                (Ok((r0, v0)), Ok((r1, v1))) => {
                    if *r0 != 0 {
                        return fail("extent-alone", format!("{} decoder left {} octets of a complete {} element {}", name, r0, kindname, hex(&c.tlv)));
                    }
                    if *r1 != c.suffix.len() {
                        return fail(&format!("extent-remaining:{}", kindname), format!("{} decoder: element {} followed by {}: {} octets remain instead of {}", name, hex(&c.tlv), hex(&c.suffix), r1, c.suffix.len()));
                    }
                    if v0 != v1 {
                        return fail(&format!("extent-value:{}", kindname), format!("{} decoder: {} decodes to {} alone but to {} when followed by {}", name, hex(&c.tlv), v0, v1, hex(&c.suffix)));
                    }
                    // C02: value fidelity against the model
                    let ok = if c.kind == K_REAL { real_close(v0, &c.render) } else { *v0 == c.render };
                    if !ok {
                        return fail(&format!("value:{}", kindname), format!("{} decoder: {} decodes to {}, the encoding denotes {}", name, hex(&c.tlv), v0, c.render));
                    }
                }
                (Ok(_), Err(e)) => return fail(&format!("extent-reject:{}", kindname), format!("{} decoder: {} is accepted alone but rejected ({}) when followed by {}", name, hex(&c.tlv), e, hex(&c.suffix))),
                (Err(e), _) => return fail(&format!("valid-rejected:{}", kindname), format!("{} decoder rejects well-formed {}: {}", name, hex(&c.tlv), e)),
            }
        }
        let nt = !c.suffix.is_empty();
        Ok(Info { nontrivial: nt, key: hash_of(&xs), classes: vec![if nt { "extent:with_suffix" } else { "extent:alone" }, KIND_NAMES[c.kind as usize]] })
    })
}

const KIND_NAMES: [&str; 19] = ["k:bool", "k:int", "k:null", "k:octets", "k:oid", "k:objdesc", "k:real", "k:ip", "k:counter32", "k:gauge32", "k:timeticks", "k:opaque", "k:counter64", "k:uinteger32", "k:reloid", "k:sequence", "k:nosuchobject", "k:nosuchinstance", "k:endofmibview"];

pub fn c16_values(st: &Mutex<Stats>, thorough: bool, seed: u64) {
    run_prop(st, val_case(), if thorough { 5_000_000 } else { 400_000 }, seed, check_val, |c| format!("x={} s={} ({})", hex(&c.tlv), hex(&c.suffix), c.render));
}

// ------------------------------------------------------------------ C16: messages, trailing bytes, nesting attacks
#[derive(Debug, Clone)]
pub struct AttackCase {
    pub msg: MsgCase,
    pub response: bool,
    pub suffix: Vec<u8>,
    pub pick: u16,
    pub delta: u16,
}

fn build_ref_message(c: &MsgCase, response: bool) -> Vec<u8> {
    let mut pdu = ref_pdu(c);
    if response {
        // a GetResponse with INTEGER values instead of NULLs
        let mut vbl = Vec::new();
        for (i, o) in c.oids.iter().enumerate() {
            let mut vb = re::tlv(0x06, &re::oid_content(o));
            vb.extend(re::enc_int(i as i64 * 77 - 5));
            vbl.extend(re::tlv(0x30, &vb));
        }
        let mut body = re::enc_int(c.request_id);
        body.extend(re::enc_int(0));
        body.extend(re::enc_int(0));
        body.extend(re::tlv(0x30, &vbl));
        pdu = re::tlv(0xa2, &body);
    }
    if c.ver != 3 {
        let mut body = re::enc_int(c.ver as i64);
        body.extend(re::tlv(0x04, &c.community));
        body.extend(&pdu);
        return re::tlv(0x30, &body);
    }
    let mut sc = re::tlv(0x04, &c.engine_id);
    // contextName: empty as the client sends it, or (legal, unusual) non-empty - derived from the case so that it is reproducible
    let ctx_name: Vec<u8> = if c.msg_id % 3 == 0 { c.user.iter().take(20).cloned().collect() } else { vec![] };
    sc.extend(re::tlv(0x04, &ctx_name));
    sc.extend(&pdu);
    let data = re::tlv(0x30, &sc);
    let mut usm = re::tlv(0x04, &c.engine_id);
    usm.extend(re::enc_int(c.boots));
    usm.extend(re::enc_int(c.time));
    usm.extend(re::tlv(0x04, &c.user));
    usm.extend(re::tlv(0x04, if c.auth { &[0u8; 12] } else { &[] }));
    usm.extend(re::tlv(0x04, &[]));
    let usm = re::tlv(0x30, &usm);
    let mut hdr = re::enc_int(c.msg_id);
    hdr.extend(re::enc_int(65507));
    hdr.extend(re::tlv(0x04, &[c.flags.0 as u8]));
    hdr.extend(re::enc_int(3));
    let mut body = re::enc_int(3);
    body.extend(re::tlv(0x30, &hdr));
    body.extend(re::tlv(0x04, &usm));
    body.extend(&data);
    re::tlv(0x30, &body)
}

pub fn decode_message(ver: u8, b: &[u8]) -> Result<String, String> {
    let r = match ver {
        0 => SnmpV1Message::try_from(b).map(|m| format!("{:?}/{:?}", m.community, render_pdu(&m.pdu))),
        1 => SnmpV2cMessage::try_from(b).map(|m| format!("{:?}/{:?}", m.community, render_pdu(&m.pdu))),
        _ => SnmpV3Message::try_from(b).map(|m| {
            format!("{}/{:?}/{}/{}/{:?}/{}", m.msg_id, m.usm.engine_id, m.usm.engine_boots, m.usm.engine_time, m.usm.user_name, match &m.data {
                MsgData::Plaintext(sp) => format!("{:?}/{}", sp.engine_id, render_pdu(&sp.pdu)),
                MsgData::Encrypted(x) => hex(x),
            })
        }),
    };
    r.map_err(|e| format!("{:?}", e))
}

fn render_pdu(p: &SnmpPdu) -> String {
    match p {
        SnmpPdu::GetResponse(r) => format!("resp:{}:{}", r.request_id, r.vars.iter().map(|v| format!("{}={}", hex(&v.oid.0), match &v.value { SnmpValue::Int(_) => "int", SnmpValue::Null => "null", _ => "other" })).collect::<Vec<_>>().join(",")),
        other => format!("{:?}", pdu_fields(other)),
    }
}

/// all TLV header positions of a strictly encoded message: (len_octet_offset, content_start, content_end, depth).
/// Only real containers are entered: constructed tags, and for v3 the msgSecurityParameters OCTET STRING
/// (third element of the message); other OCTET STRINGs are opaque data even if they look like TLVs.
fn scan(b: &[u8], off: usize, end: usize, depth: usize, v3: bool, out: &mut Vec<(usize, usize, usize, usize)>) {
    let mut p = off;
    let mut index = 0;
    while p + 2 <= end {
        let tag = b[p];
        let l0 = b[p + 1];
        let (len, hdr) = if l0 < 0x80 { (l0 as usize, 2) } else {
            let k = (l0 & 0x7f) as usize;
            if k == 0 || k > 3 || p + 2 + k > end { return; }
            let mut n = 0usize;
            for x in &b[p + 2..p + 2 + k] { n = (n << 8) | *x as usize; }
            (n, 2 + k)
        };
        if p + hdr + len > end { return; }
        out.push((p + 1, p + hdr, p + hdr + len, depth));
        if (tag & 0x20 != 0 || (v3 && tag == 0x04 && depth == 1 && index == 2)) && depth < 8 {
            scan(b, p + hdr, p + hdr + len, depth + 1, v3, out);
        }
        p += hdr + len;
        index += 1;
    }
}

fn check_attack(c: &AttackCase) -> Result<Info, Fail> {
    let c = c.clone();
    guard(move || {
        let msg = build_ref_message(&c.msg, c.response);
        if msg.len() > 4000 {
            return Ok(Info { nontrivial: false, key: 0, classes: vec!["attack:too_big_skipped"] });
        }
        let base = decode_message(c.msg.ver, &msg).map_err(|e| Fail { sig: "valid-message-rejected".into(), msg: format!("{}: {}", e, hex(&msg)) })?;
        let _ = base;
        // (1) bytes after the top-level message
        if !c.suffix.is_empty() {
            let mut m2 = msg.clone();
            m2.extend(&c.suffix);
            if let Ok(v) = decode_message(c.msg.ver, &m2) {
                return fail("trailing-bytes-accepted", format!("v{} message followed by {} still decodes ({})", c.msg.ver, hex(&c.suffix), &v[..v.len().min(60)]));
            }
        }
        // (2) nesting attack: raise one inner declared length past the end of its parent
        let mut hdrs = Vec::new();
        scan(&msg, 0, msg.len(), 0, c.msg.ver == 3, &mut hdrs);
        let inner: Vec<_> = hdrs.iter().filter(|h| h.3 >= 1).collect();
        let mut attacked = false;
        if !inner.is_empty() {
            let h = inner[(c.pick as usize * inner.len()) >> 16];
            // parent = innermost enclosing header
            let parent = hdrs.iter().filter(|p| p.3 + 1 == h.3 && p.1 <= h.0 && h.2 <= p.2).last();
            if let Some(p) = parent {
                let room = p.2 - h.2; // octets of the parent after this element
                let add = room + 1 + (c.delta as usize % 300);
                let new_len = (h.2 - h.1) + add;
                let mut m3 = msg.clone();
                let lo = h.0;
                let ok = if m3[lo] < 0x80 {
                    if new_len < 128 { m3[lo] = new_len as u8; true } else { false }
                } else {
                    let k = (m3[lo] & 0x7f) as usize;
                    if new_len < (1usize << (8 * k)) { for i in 0..k { m3[lo + 1 + i] = ((new_len >> (8 * (k - 1 - i))) & 0xff) as u8; } true } else { false }
                };
                if ok {
                    attacked = true;
                    // outer lengths stay as they were, so the element now overruns its parent
                    if let Ok(v) = decode_message(c.msg.ver, &m3) {
                        return fail("nested-overrun-accepted", format!("v{} message with the length at offset {} raised by {} (past its parent) still decodes: {} -> {}", c.msg.ver, lo, add, hex(&m3), &v[..v.len().min(60)]));
                    }
                }
            }
        }
        // (3) parent shrink: lower the declared length of a container so that its *last child* is cut in the middle.
        //     The child then runs past its parent and must be rejected, although every byte is still inside the datagram.
        let containers: Vec<_> = hdrs.iter().filter(|h| hdrs.iter().any(|ch| ch.3 == h.3 + 1 && ch.1 >= h.1 && ch.2 == h.2 && ch.2 > ch.1)).collect();
        if !containers.is_empty() {
            let h = containers[((c.pick as usize ^ 0x5a5a) * containers.len()) >> 16];
            // last child: ends exactly where the container ends
            let last = hdrs.iter().filter(|ch| ch.3 == h.3 + 1 && ch.1 >= h.1 && ch.2 == h.2).last().unwrap();
            // start of the last child's TLV: its length octet offset minus one (single-octet tags only)
            let child_start = last.0 - 1;
            let child_total = h.2 - child_start;
            if child_total >= 2 {
                let cut = 1 + (c.delta as usize % (child_total - 1)); // 1 ..= child_total-1 octets removed from the container
                let new_len = (h.2 - h.1) - cut;
                let mut m4 = msg.clone();
                let lo = h.0;
                if m4[lo] < 0x80 {
                    m4[lo] = new_len as u8;
                } else {
                    let k = (m4[lo] & 0x7f) as usize;
                    for i in 0..k {
                        m4[lo + 1 + i] = ((new_len >> (8 * (k - 1 - i))) & 0xff) as u8;
                    }
                }
                attacked = true;
                if let Ok(v) = decode_message(c.msg.ver, &m4) {
                    return fail("child-overruns-shrunk-parent", format!("v{} message whose container length at offset {} was lowered by {} (its last child now runs past it) still decodes: {} -> {}", c.msg.ver, lo, cut, hex(&m4), &v[..v.len().min(60)]));
                }
            }
        }
        Ok(Info { nontrivial: !c.suffix.is_empty() || attacked, key: hash_of(&(msg, c.suffix.clone(), c.pick, c.delta)), classes: vec![if attacked { "attack:nested_length" } else { "attack:none" }, if c.suffix.is_empty() { "attack:no_suffix" } else { "attack:trailing" }] })
    })
}

pub fn c16_messages(st: &Mutex<Stats>, thorough: bool, seed: u64) {
    let s = (msg_case(), any::<bool>(), suffix(), any::<u16>(), any::<u16>()).prop_map(|(mut msg, response, suffix, pick, delta)| {
        msg.priv_ = None;
        msg.oids.truncate(12);
        AttackCase { msg, response, suffix, pick, delta }
    });
    run_prop(st, s, if thorough { 1_000_000 } else { 80_000 }, seed, check_attack, |c| format!("{:?}", c));
}
