//! Independent minimal BER encoders / strict decoders (written from X.690;
//! shares nothing with the library's codec).

pub fn enc_len(n: usize, out: &mut Vec<u8>) {
    if n < 128 {
        out.push(n as u8);
    } else {
        let mut tmp = Vec::new();
        let mut v = n;
        while v > 0 {
            tmp.push((v & 0xff) as u8);
            v >>= 8;
        }
        out.push(0x80 | tmp.len() as u8);
        tmp.reverse();
        out.extend_from_slice(&tmp);
    }
}

/// length with a chosen form: 0 minimal, k>=1 long form with at least k octets
pub fn enc_len_form(n: usize, form: u8, out: &mut Vec<u8>) {
    if form == 0 {
        return enc_len(n, out);
    }
    let mut need = 1usize;
    while need < 8 && (n >> (8 * need)) != 0 {
        need += 1;
    }
    let k = need.max(form as usize);
    out.push(0x80 | k as u8);
    for i in (0..k).rev() {
        out.push(((n >> (8 * i)) & 0xff) as u8);
    }
}

pub fn tlv(tag: u8, content: &[u8]) -> Vec<u8> {
    let mut out = vec![tag];
    enc_len(content.len(), &mut out);
    out.extend_from_slice(content);
    out
}

pub fn tlv_form(tag: u8, content: &[u8], form: u8) -> Vec<u8> {
    let mut out = vec![tag];
    enc_len_form(content.len(), form, &mut out);
    out.extend_from_slice(content);
    out
}

/// Minimal two's complement contents of an INTEGER.
pub fn int_content(v: i64) -> Vec<u8> {
    let b = v.to_be_bytes();
    let mut start = 0;
    while start < 7 {
        let cur = b[start];
        let next = b[start + 1];
        if (cur == 0x00 && next & 0x80 == 0) || (cur == 0xff && next & 0x80 != 0) {
            start += 1;
        } else {
            break;
        }
    }
    b[start..].to_vec()
}

pub fn enc_int(v: i64) -> Vec<u8> {
    tlv(0x02, &int_content(v))
}

pub fn uint_content(v: u64, leading_zero: Option<bool>) -> Vec<u8> {
    let b = v.to_be_bytes();
    let mut start = 0;
    while start < 7 && b[start] == 0 {
        start += 1;
    }
    let mut out = Vec::new();
    let lz = leading_zero.unwrap_or(b[start] & 0x80 != 0);
    if lz {
        out.push(0);
    }
    out.extend_from_slice(&b[start..]);
    out
}

pub fn arc_bytes(a: u64, out: &mut Vec<u8>) {
    let mut tmp = vec![(a & 0x7f) as u8];
    let mut v = a >> 7;
    while v > 0 {
        tmp.push(0x80 | (v & 0x7f) as u8);
        v >>= 7;
    }
    tmp.reverse();
    out.extend_from_slice(&tmp);
}

pub fn oid_content(arcs: &[u32]) -> Vec<u8> {
    let mut out = Vec::new();
    arc_bytes(arcs[0] as u64 * 40 + arcs[1] as u64, &mut out);
    for a in &arcs[2..] {
        arc_bytes(*a as u64, &mut out);
    }
    out
}

pub fn oid_text(arcs: &[u32]) -> String {
    arcs.iter().map(|a| a.to_string()).collect::<Vec<_>>().join(".")
}

// ---------------------------------------------------------------- strict decoder
#[derive(Debug)]
pub struct Tlv<'a> {
    pub tag: u8,
    pub content: &'a [u8],
    pub rest: &'a [u8],
}

/// Strict: definite, minimal length octets, no high tag numbers.
pub fn read_tlv(b: &[u8]) -> Result<Tlv<'_>, String> {
    if b.len() < 2 {
        return Err("truncated header".into());
    }
    let tag = b[0];
    if tag & 0x1f == 0x1f {
        return Err("high tag number".into());
    }
    let l0 = b[1];
    let (len, hdr) = if l0 < 0x80 {
        (l0 as usize, 2)
    } else {
        let k = (l0 & 0x7f) as usize;
        if k == 0 || k > 4 || b.len() < 2 + k {
            return Err("bad length octets".into());
        }
        if b[2] == 0 {
            return Err("non-minimal length (leading zero)".into());
        }
        let mut n = 0usize;
        for x in &b[2..2 + k] {
            n = (n << 8) | *x as usize;
        }
        if n < 128 {
            return Err("long form for short length".into());
        }
        (n, 2 + k)
    };
    if b.len() < hdr + len {
        return Err("content past end".into());
    }
    Ok(Tlv { tag, content: &b[hdr..hdr + len], rest: &b[hdr + len..] })
}

pub fn expect(b: &[u8], tag: u8) -> Result<Tlv<'_>, String> {
    let t = read_tlv(b)?;
    if t.tag != tag {
        return Err(format!("expected tag {:#x} found {:#x}", tag, t.tag));
    }
    Ok(t)
}

pub fn dec_int(c: &[u8]) -> Result<i64, String> {
    if c.is_empty() || c.len() > 8 {
        return Err("INTEGER size".into());
    }
    if c.len() > 1 && ((c[0] == 0 && c[1] & 0x80 == 0) || (c[0] == 0xff && c[1] & 0x80 != 0)) {
        return Err("non-minimal INTEGER".into());
    }
    let mut v: i64 = if c[0] & 0x80 != 0 { -1 } else { 0 };
    for x in c {
        v = (v << 8) | *x as i64;
    }
    Ok(v)
}

pub fn dec_oid(c: &[u8]) -> Result<Vec<u64>, String> {
    if c.is_empty() || c[c.len() - 1] & 0x80 != 0 {
        return Err("bad OID".into());
    }
    let mut subs = Vec::new();
    let mut v = 0u64;
    let mut start = true;
    for x in c {
        if start && *x == 0x80 {
            return Err("0x80-padded sub-identifier".into());
        }
        start = false;
        v = (v << 7) | (*x & 0x7f) as u64;
        if x & 0x80 == 0 {
            subs.push(v);
            v = 0;
            start = true;
        }
    }
    let f = subs[0];
    let (a, b) = if f < 40 { (0, f) } else if f < 80 { (1, f - 40) } else { (2, f - 80) };
    let mut out = vec![a, b];
    out.extend_from_slice(&subs[1..]);
    Ok(out)
}
