#![no_main]
use libfuzzer_sys::fuzz_target;

fuzz_target!(|data: &[u8]| {
    gufo_snmp::verif::fuzz_entry::buffer_ops(data);
});
