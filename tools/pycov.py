#!/usr/bin/env python3
"""Diagnostic (not a check): which lines of the library's Python layer do the quick tiers execute?

usage: python3-vt tools/pycov.py C02 C03 ...      (writes .build/pycov.json, prints the unexecuted lines per file)
Worker processes (C18's pool) are not traced.  Used to find parts of src/gufo/snmp/*.py no generator reaches.
"""
import importlib
import json
import os
import sys
import threading

HERE = os.path.dirname(os.path.abspath(__file__))
sys.path.insert(0, os.path.join(HERE, "..", "py"))
os.environ["VERIF_NO_ISOLATE"] = "1"
os.environ.setdefault("RUST_BACKTRACE", "0")
from vlib import build, core  # noqa: E402

pkg = build.ensure_ext()
root = os.path.join(pkg, "gufo", "snmp")
hits = {}


def tracer(frame, event, arg):
    fn = frame.f_code.co_filename
    if not fn.startswith(root):
        return None
    s = hits.setdefault(fn, set())

    def local(frame, event, arg):
        if event == "line":
            s.add(frame.f_lineno)
        return local
    s.add(frame.f_lineno)
    return local


def executable_lines(path):
    src = open(path).read()
    code = compile(src, path, "exec")
    out = set()

    def walk(c):
        for _, _, ln in c.co_lines():
            if ln:
                out.add(ln)
        for k in c.co_consts:
            if hasattr(k, "co_lines"):
                walk(k)
    walk(code)
    return out, src.splitlines()


def main():
    ids = sys.argv[1:]
    threading.settrace(tracer)
    sys.settrace(tracer)
    for pid in ids:
        mod = importlib.import_module("checks.%s" % pid.lower())
        rep = core.Reporter(pid, "quick", 0, "exploration")
        rep.evidence_dir = os.path.join(core.BUILD_DIR if hasattr(core, "BUILD_DIR") else "/verif/.build", "evidence-scratch")
        try:
            mod.run(rep, "quick")
        except BaseException as e:  # noqa: BLE001
            print("%s: %r" % (pid, e))
    sys.settrace(None)
    threading.settrace(None)
    res = {}
    for dp, _, fs in os.walk(root):
        for f in fs:
            if not f.endswith(".py"):
                continue
            p = os.path.join(dp, f)
            ex, lines = executable_lines(p)
            got = hits.get(p, set())
            miss = sorted(ex - got)
            res[os.path.relpath(p, root)] = {"executable": len(ex), "hit": len(ex & got), "missed": miss}
            print("== %s: %d/%d" % (os.path.relpath(p, root), len(ex & got), len(ex)))
            for ln in miss:
                print("   %4d  %s" % (ln, lines[ln - 1].rstrip()[:110]))
    with open("/verif/.build/pycov.json", "w") as fh:
        json.dump(res, fh, indent=1)


main()
