#!/usr/bin/env python3
"""Mutation self-test of the checks against the library's RUST sources (not a registered check).

usage: python3-vt tools/rsmut.py list [N]             -> enumerate (a seeded sample of N) mutants
       python3-vt tools/rsmut.py run [-j W] [N]       -> run them on W scratch copies in parallel
Each mutant is one textual edit of one line of src/**/*.rs outside `#[cfg(test)]` modules.  A worker applies it to its
scratch copy (/tmp/gufo-rsmut-<k>, removed at the end), runs the quick tier of the checks (libFuzzer campaigns skipped)
in an order that puts the checks anchored in that directory first, and stops at the first VIOLATION.  Mutants that do not
build are dropped; for survivors the pinned unit tests are run to tell "would have been caught by the existing tests".
Results: .build/rsmut/results.jsonl.
"""
import hashlib
import json
import os
import random
import re
import shutil
import subprocess
import sys
from concurrent.futures import ThreadPoolExecutor

VERIF = os.path.dirname(os.path.dirname(os.path.abspath(__file__)))
OUT = os.path.join(VERIF, ".build", "rsmut")
REPO = "/repo"
ALL = ["C15", "C16", "C02", "C03", "C07", "C05", "C06", "C04", "C01", "C08", "C09", "C10", "C11", "C12", "C13", "C14", "C17", "C18"]
FIRST = {
    "ber": ["C15", "C16", "C02", "C08", "C06", "C01"],
    "snmp": ["C15", "C16", "C03", "C02", "C07", "C04", "C13", "C10"],
    "socket": ["C04", "C03", "C07", "C13", "C10", "C05", "C06", "C18", "C09", "C14"],
    "auth": ["C12", "C09", "C10", "C13"],
    "privacy": ["C11", "C14", "C15", "C17"],
    "buf": ["C15", "C17", "C03"],
    "": ["C03", "C04", "C07", "C01"],
}

SWAPS = [(" < ", " <= "), (" <= ", " < "), (" > ", " >= "), (" >= ", " > "), (" == ", " != "), (" != ", " == "),
         (" && ", " || "), (" || ", " && "), (" + 1", " + 0"), (" - 1", " - 0"), (" + 1", " + 2"), (" - 1", " - 2"),
         ("wrapping_add(1)", "wrapping_add(0)"), (" << ", " >> "), (" >> ", " << "), (" | ", " & "), (" & ", " | "),
         (" + ", " - "), (" - ", " + "), ("..=", ".."), ("true", "false"), ("false", "true"), ("if !", "if "), (".saturating_sub(", ".wrapping_sub(")]


def code_lines(path):
    """(lineno, text) of lines that are code outside #[cfg(test)] and outside comments."""
    out = []
    lines = open(path).read().split("\n")
    for i, l in enumerate(lines):
        if l.strip().startswith("#[cfg(test)]"):
            break
        t = l.strip()
        if not t or t.startswith("//") or t.startswith("#[") or t.startswith("use ") or t.startswith("pub use ") or t.startswith("mod "):
            continue
        out.append((i, l))
    return lines, out


def enumerate_mutants():
    ms = []
    for dp, _, fs in os.walk(os.path.join(REPO, "src")):
        if "/gufo" in dp:
            continue
        for f in sorted(fs):
            if not f.endswith(".rs"):
                continue
            path = os.path.join(dp, f)
            rel = os.path.relpath(path, REPO)
            lines, code = code_lines(path)
            for i, l in code:
                body = l.split("//")[0]
                for a, b in SWAPS:
                    for m in re.finditer(re.escape(a), body):
                        if a in ("true", "false") and not re.search(r"\b%s\b" % a, body):
                            continue
                        if a.strip() in ("<", ">") and ("fn " in body or "impl" in body or "->" in body or "::<" in body):
                            continue
                        new = body[:m.start()] + b + body[m.end():] + l[len(body):]
                        ms.append({"file": rel, "line": i + 1, "old": l.strip(), "new": new.strip(), "desc": "%r -> %r" % (a.strip(), b.strip()), "text": new})
                # integer literal nudges
                for m in re.finditer(r"(?<![\w.])(0x[0-9a-fA-F]+|\d+)(?![\w.])", body):
                    lit = m.group(1)
                    v = int(lit, 16) if lit.startswith("0x") else int(lit)
                    nv = v + 1
                    rep = ("0x%x" % nv) if lit.startswith("0x") else str(nv)
                    new = body[:m.start()] + rep + body[m.end():] + l[len(body):]
                    ms.append({"file": rel, "line": i + 1, "old": l.strip(), "new": new.strip(), "desc": "%s -> %s" % (lit, rep), "text": new})
                # statement deletion
                t = body.strip()
                if t.endswith(";") and not t.startswith(("let ", "return", "const ", "static ", "type ", "pub ", "}")) and "=>" not in t:
                    ind = l[:len(l) - len(l.lstrip())]
                    ms.append({"file": rel, "line": i + 1, "old": l.strip(), "new": "// deleted", "desc": "delete statement", "text": ind + "// " + t})
    for k, m in enumerate(ms):
        m["id"] = "%s:%d:%s" % (m["file"][4:], m["line"], hashlib.sha1((m["old"] + m["new"]).encode()).hexdigest()[:6])
    return ms


def sample(ms, n, seed=20261003):
    rnd = random.Random(seed)
    by = {}
    for m in ms:
        by.setdefault(m["file"], []).append(m)
    files = sorted(by)
    for f in files:
        rnd.shuffle(by[f])
    out = []
    while len(out) < n and any(by.values()):
        for f in files:
            if by[f] and len(out) < n:
                out.append(by[f].pop())
    return out


def sh(cmd, env=None, cwd=None, timeout=3600):
    try:
        p = subprocess.run(cmd, env=env, cwd=cwd, capture_output=True, text=True, timeout=timeout)
        return p.returncode, p.stdout + p.stderr
    except subprocess.TimeoutExpired:
        return 99, "timeout"


def run_one(m, k):
    d = "/tmp/gufo-rsmut-%d" % k
    if not os.path.isdir(d):
        sh(["rsync", "-a", "--exclude", "target", "--exclude", ".git", REPO + "/", d + "/"])
    # restore every source file, then apply the one edit
    sh(["rsync", "-a", "--delete", REPO + "/src/", d + "/src/"])
    path = os.path.join(d, m["file"])
    lines = open(path).read().split("\n")
    lines[m["line"] - 1] = m["text"]
    open(path, "w").write("\n".join(lines))
    env = dict(os.environ, VERIF_REPO=d, VERIF_SEED="0", VERIF_SKIP_FUZZ="1", VERIF_CACHE_KEEP="16", CARGO_NET_OFFLINE="true", CARGO_BUILD_JOBS="4")
    res = {"id": m["id"], "file": m["file"], "line": m["line"], "desc": m["desc"], "old": m["old"], "new": m["new"], "caught_by": None, "outcomes": {}}
    top = m["file"].split("/")[1] if m["file"].count("/") >= 2 else ""
    order = FIRST.get(top, FIRST[""]) + [c for c in ALL if c not in FIRST.get(top, FIRST[""])]
    for pid in order:
        rc, out = sh([os.path.join(VERIF, "check"), pid, "--tier", "quick"], env=env, timeout=2400)
        sig = ""
        for l in out.splitlines():
            if l.strip().startswith("signature:"):
                sig = l.strip()[10:].strip()
                break
        if rc == 2 and "build failed" in out:
            res["caught_by"] = "does-not-build"
            res["outcomes"][pid] = [rc, "build"]
            break
        res["outcomes"][pid] = [rc, sig]
        if rc == 1:
            res["caught_by"] = pid
            break
    if res["caught_by"] is None:
        rc, out = sh(["cargo", "test", "--offline"], env=dict(env, CARGO_TARGET_DIR=os.path.join(VERIF, ".build", "rsmut-test-target-%d" % k)), cwd=d)
        ok = re.search(r"test result: ok\. (\d+) passed", out)
        res["unit_tests"] = "pass" if ok and rc == 0 else "FAIL"
    return res


def main():
    ms = enumerate_mutants()
    args = sys.argv[1:]
    mode = args[0] if args else "list"
    args = args[1:]
    jobs = 4
    if args[:1] == ["-j"]:
        jobs = int(args[1])
        args = args[2:]
    n = int(args[0]) if args else len(ms)
    sel = sample(ms, n)
    if mode == "list":
        for m in sel:
            print(m["id"], m["desc"], "|", m["old"][:70], "=>", m["new"][:70])
        print(len(sel), "of", len(ms))
        return
    os.makedirs(OUT, exist_ok=True)
    resf = os.path.join(OUT, "results.jsonl")
    done = set()
    if os.path.exists(resf):
        done = {json.loads(l)["id"] for l in open(resf)}
    sel = [m for m in sel if m["id"] not in done]
    import queue
    free = queue.Queue()
    for k in range(jobs):
        free.put(k)

    def work(m):
        k = free.get()
        try:
            return run_one(m, k)
        finally:
            free.put(k)

    try:
        with ThreadPoolExecutor(jobs) as ex, open(resf, "a") as fh:
            for r in ex.map(work, sel):
                fh.write(json.dumps(r) + "\n")
                fh.flush()
                print(r["id"], r["desc"], "->", r["caught_by"] or ("SURVIVED (unit tests %s)" % r.get("unit_tests")), flush=True)
    finally:
        for k in range(jobs):
            shutil.rmtree("/tmp/gufo-rsmut-%d" % k, ignore_errors=True)


main()
