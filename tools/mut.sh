#!/bin/bash
# usage: tools/mut.sh <patch.diff | -e 'sed-expr' file> -- <ID> [<ID>...]
# Applies a change to a scratch copy of /repo, confirms the pinned unit tests still pass,
# runs the named checks against the copy (VERIF_REPO), removes the copy.
set -u
D=/tmp/gufo-mut
rm -rf $D
rsync -a --exclude target --exclude .git /repo/ $D/
cleanup() { rm -rf $D; }
trap cleanup EXIT
if [ "$1" = "-e" ]; then
  sed -i "$2" $D/$3 || exit 3
  shift 3
else
  (cd $D && patch -p1 -s < "$1") || exit 3
  shift
fi
[ "$1" = "--" ] && shift
diff -ru /repo/src $D/src | head -${MUT_DIFF_LINES:-12}
if [ -z "${MUT_SKIP_TESTS:-}" ]; then
  (cd $D && CARGO_NET_OFFLINE=true CARGO_TARGET_DIR=/verif/.build/mut-test-target cargo test --offline 2>&1 | grep -E "^test result|FAILED|failed" | head -5)
fi
for id in "$@"; do
  VERIF_REPO=$D /verif/check $id ${MUT_TIER:+--tier $MUT_TIER} 2>&1 | grep -E "VIOLATION|signature|KNOWN|held|VIOLATED|INCONCLUSIVE" | head -6
done
