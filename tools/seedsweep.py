#!/usr/bin/env python3
"""Regression sweep over all seeded changes: every seeded/<dir>/patch.diff is applied to a scratch copy of /repo and the
checks named in its meta.json (caught_by_checks) are run; prints which still report a violation.
usage: python3-vt tools/seedsweep.py [-j W] [dir-prefix ...]      (scratch copies /tmp/gufo-sweep-<k>, removed at the end)"""
import json
import os
import queue
import shutil
import subprocess
import sys
from concurrent.futures import ThreadPoolExecutor

VERIF = os.path.dirname(os.path.dirname(os.path.abspath(__file__)))


def sh(cmd, **kw):
    try:
        p = subprocess.run(cmd, capture_output=True, text=True, timeout=3000, **kw)
        return p.returncode, p.stdout + p.stderr
    except subprocess.TimeoutExpired:
        return 99, "timeout"


def run_one(name, k):
    sd = os.path.join(VERIF, "seeded", name)
    meta = json.load(open(os.path.join(sd, "meta.json")))
    checks = meta.get("caught_by_checks") or [meta["property"]]
    own = meta.get("breaks_property", meta["property"])
    checks = ([own] if own in checks else []) + [c for c in checks if c != own]
    d = "/tmp/gufo-sweep-%d" % k
    if not os.path.isdir(d):
        sh(["rsync", "-a", "--exclude", "target", "--exclude", ".git", "/repo/", d + "/"])
    sh(["rsync", "-a", "--delete", "/repo/src/", d + "/src/"])
    rc, out = sh(["patch", "-p1", "-s", "-i", os.path.join(sd, "patch.diff")], cwd=d)
    if rc != 0:
        return name, "PATCH-DOES-NOT-APPLY", {}
    env = dict(os.environ, VERIF_REPO=d, VERIF_SEED="0", VERIF_CACHE_KEEP="16", CARGO_BUILD_JOBS="4")
    res = {}
    for c in checks:
        rc, out = sh([os.path.join(VERIF, "check"), c, "--tier", "quick"], env=env)
        sig = ""
        for l in out.splitlines():
            if l.strip().startswith("signature:"):
                sig = l.strip()[10:].strip()
                break
        res[c] = (rc, sig)
    verdict = "caught-by-own" if res.get(own, (0,))[0] == 1 else ("caught-by-other" if any(v[0] == 1 for v in res.values()) else "MISSED")
    return name, verdict, res


def main():
    args = sys.argv[1:]
    jobs = 4
    if args[:1] == ["-j"]:
        jobs = int(args[1])
        args = args[2:]
    names = sorted(n for n in os.listdir(os.path.join(VERIF, "seeded")) if os.path.exists(os.path.join(VERIF, "seeded", n, "patch.diff")))
    if args:
        names = [n for n in names if any(n.startswith(a) for a in args)]
    free = queue.Queue()
    for k in range(jobs):
        free.put(k)

    def work(n):
        k = free.get()
        try:
            return run_one(n, k)
        finally:
            free.put(k)

    try:
        with ThreadPoolExecutor(jobs) as ex:
            for name, verdict, res in ex.map(work, names):
                print(name, verdict, res, flush=True)
    finally:
        for k in range(jobs):
            shutil.rmtree("/tmp/gufo-sweep-%d" % k, ignore_errors=True)


main()
