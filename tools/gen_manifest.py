#!/usr/bin/env python3
"""Regenerate /verif/MANIFEST.json from the table below (single source of truth)."""
import json
import os

V = os.path.dirname(os.path.dirname(os.path.abspath(__file__)))
props = [json.loads(l) for l in open(os.path.join(V, "properties.jsonl"))]

E1 = "pyagent (Hypothesis + real release-built extension + scripted UDP agent)"
CHECKS = {
    "C01": dict(level="exploration", tech="property-based structured mutation (Hypothesis) through the real sessions + coverage-guided fuzzing (libFuzzer/ASan) of the receive path and decoders; oracle: outcome class",
                text="Generated-input search: thousands of mutated replies per run through the real extension (all versions/security levels/operations/drivers) and libFuzzer+ASan campaigns on the receive path; finds crashes, cannot prove their absence.",
                note="Trusts the reference encoder only to produce seed replies; the oracle is just the outcome class. Process abort is detected by running the check body in a child process."),
    "C02": dict(level="exploration", tech="property-based testing (Hypothesis) against an independent reference BER encoder; differential oracle on decoded Python values",
                text="Model responses covering every value type, boundary encodings and length forms are encoded by an independent encoder and read back through the real API; equality with the documented type table. Exploration, not proof.",
                note="Reference encoder refber.py and reference crypto refusm.py (self-tested on FIPS/RFC vectors) are trusted."),
    "C04": dict(level="fault_enumeration", tech="property-based fault-script generation (Hypothesis) against a reference FIFO model of the socket queue; thorough tier enumerates all fault words of length <=3",
                text="Fault scripts (loss, duplication, delay, reordering, field rewriting, truncation) over 1..4 requests are replayed against the real socket; every call outcome must equal a reference FIFO model computed from the ids seen on the wire.",
                note="Assumes FIFO loopback UDP; classification uses the independent reference decoder."),
    "C07": dict(level="exploration", tech="property-based testing (Hypothesis); oracle is the result/exception table of the property statement",
                text="Generated replies (0..6 varbinds, value/NULL/exception mixes, duplicates, Reports, silence) through get/get_many on all versions and drivers; outcome compared with the documented table.",
                note="Trusts the reference encoder for building replies."),
    "C19": dict(level="exploration", tech="property-based testing (Hypothesis) of call-time sequences + bounded-exhaustive DFS with the real get_timeout as transition function; invariant oracle from exact rational interval",
                text="Generated and exhaustively enumerated timestamp sequences against the real RPSPolicer; invariants delay<=I and window spans >(k-1)I checked over all pairs in O(n).",
                note="Assumes a monotonic clock and sequential callers as the property states."),
}

checks = []
for p in props:
    c = CHECKS.get(p["id"])
    if not c:
        continue
    checks.append({
        "property_id": p["id"],
        "quick_cmd": "./check %s --tier quick" % p["id"],
        "thorough_cmd": "./check %s --tier thorough" % p["id"],
        "evidence_file": "evidence/%s.json" % p["id"],
        "replay_cmd_template": "./check %s --replay {path}" % p["id"],
        "engine": c.get("engine", "pyagent"),
        "level_claimed": {"category": c["level"], "text": c["text"], "design_ref": "DESIGN.md section 6 (%s)" % p["id"]},
        "level_note": c["note"],
        "technique": c["tech"],
    })

na = [{"property_id": p["id"], "reason": "check not built yet (work in progress; plan in DESIGN.md section 6)"}
      for p in props if p["id"] not in CHECKS]
m = {
    "version": 1,
    "setup_cmd": "./setup.sh",
    "hooks": {
        "guard": "none - no guarded source change exists in /repo (the Rust harness compiles /repo/src through #[path] modules)",
        "enable": "n/a: checks build /repo's working tree as is (release profile for the extension; mirror crate for harness binaries)",
        "baseline_off_cmd": "cd /repo && cargo test --workspace --no-fail-fast --offline",
        "source_commits": [],
        "add_only": True,
    },
    "engines": [
        {"name": "pyagent", "path": "py/", "serves_properties": sorted(CHECKS), "kind_free_text": E1},
        {"name": "rsprop", "path": "rs/harness, rs/bins", "serves_properties": [], "kind_free_text": "proptest runners inside a mirror crate compiled from /repo/src"},
        {"name": "rsfuzz", "path": "rs/fuzz", "serves_properties": [], "kind_free_text": "cargo-fuzz (libFuzzer + ASan) targets over the mirror crate"},
    ],
    "checks": checks,
    "notes": "All checks: ./check <ID> [--tier quick|thorough] [--replay FILE]; VERIF_SEED seeds every generator. Exit 0 held / 1 violation / 2 inconclusive (build or harness failure).",
    "not_applicable": na,
}
json.dump(m, open(os.path.join(V, "MANIFEST.json"), "w"), indent=1)
print("checks:", [c["property_id"] for c in checks], "na:", len(na))
