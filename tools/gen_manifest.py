#!/usr/bin/env python3
"""Regenerate /verif/MANIFEST.json from the table below (single source of truth)."""
import json
import os

V = os.path.dirname(os.path.dirname(os.path.abspath(__file__)))
props = [json.loads(l) for l in open(os.path.join(V, "properties.jsonl"))]

E1 = "pyagent (Hypothesis + real release-built extension + scripted UDP agent)"
E2 = "rsprop"
CHECKS = {
    "C01": dict(level="exploration", tech="property-based structured mutation (Hypothesis) through the real sessions + coverage-guided fuzzing (libFuzzer/ASan) of the receive path and decoders; oracle: outcome class",
                text="Generated-input search: thousands of mutated replies per run through the real extension (all versions/security levels/operations/drivers) and libFuzzer+ASan campaigns on the decoders and the decrypt path; finds crashes, cannot prove their absence.",
                note="Trusts the reference encoder only to produce seed replies; the oracle is just the outcome class (documented exception vs PanicException/abort/ASan report)."),
    "C02": dict(level="exploration", tech="property-based testing (Hypothesis + proptest) against an independent reference BER encoder; differential oracle on decoded Python values",
                text="Model responses covering every value type, boundary encodings and length forms are encoded by an independent encoder and read back through the real API (and through SnmpValue::from_ber at Rust speed); equality with the documented type table. Exploration, not proof. Encrypted replies carry arbitrary pad octets and, for v3, sometimes a non-empty contextName; walks through the real clients are sometimes preceded by an abandoned walk.",
                note="Reference encoders refber.py / refenc.rs and reference crypto refusm.py (self-tested on FIPS/RFC vectors) are trusted."),
    "C03": dict(level="exploration", tech="property-based history generation (Hypothesis) with a strict independent BER decoder as oracle on every emitted datagram",
                text="Histories of API calls over 1..3 pooled-buffer sessions; each emitted datagram must strictly decode to exactly the requested call (version, credentials, USM state, PDU type, ids, OIDs in order bound to NULL).",
                note="Strict reference decoder refber.parse_message; a second stage covers v3 sessions of the real clients that discover their engine id (incl. lost first probe), session options left to their defaults and version autodetection."),
    "C04": dict(level="fault_enumeration", tech="property-based fault-script generation (Hypothesis) against a reference FIFO model of the socket queue; thorough tier enumerates all fault words of length <=3",
                text="Fault scripts (loss, duplication, delay, reordering, field rewriting incl. ids equal modulo 2^31/2^32, truncation, stale Reports and request-tagged PDUs with foreign ids) over 1..4 requests are replayed against the real socket; every call outcome must equal a reference FIFO model computed from the ids seen on the wire; through the sync / async clients the datagrams of a burst arrive back to back or a few ms apart.",
                note="Assumes FIFO loopback UDP; classification uses the independent reference decoder."),
    "C05": dict(level="exploration", tech="property-based testing (Hypothesis): generated MIBs served by an RFC 3416 model agent; oracle is an arc-tuple model of the subtree",
                text="Generated MIBs (prefix trees with multi-octet arcs), bases, max_repetitions, agent caps, versions and drivers; list(walk) must equal the model's subtree listing and end within |MIB|+2 requests.",
                note="The model agent implements GetNext/GetBulk/endOfMibView/v1 noSuchName from RFC 3416; values from the C02 generator."),
    "C06": dict(level="exploration", tech="property-based hostile-agent scripts (Hypothesis) against an executable specification of the walk + invariants; step-count termination oracle; thorough tier adds bounded-exhaustive enumeration",
                text="Reply scripts with out-of-subtree, repeated, decreasing and exception-valued varbinds followed by looping tail strategies; yields, follow-up requests and termination (by request count) must match the specification. One OID of a script may be sent in a non-minimal (0x80-padded) encoding; then only the invariants are judged.",
                note="Where the statement allows alternatives (stop or raise) both are accepted."),
    "C07": dict(level="exploration", tech="property-based testing (Hypothesis); oracle is the result/exception table of the property statement",
                text="Generated replies (0..6 varbinds, value/NULL/exception mixes, duplicates, Reports, silence) through get / get_many (asking for 0..5 OIDs) on all versions and drivers; outcome compared with the documented table. Reports carry the request's id or 2^31-1 / 0 / 1.",
                note="Trusts the reference encoder for building replies."),
    "C08": dict(level="exploration", tech="grammar-based property testing (Hypothesis): OID strings in must-accept / must-refuse / may classes; oracle = lenient reference reader + strict reference decoder of the emitted request + echo round-trip",
                text="Strings are fed to get / get_many / GetIter; a sent datagram must carry exactly the denoted OID in canonical form, a refusal must send nothing; valid strings round-trip through the agent's echo.",
                note="The 'may' class (leading zeros, '+', 2.x with x>=40) accepts refusal or correct transmission."),
    "C09": dict(level="exploration", tech="property-based v3 histories (Hypothesis); oracle = hmac/hashlib recomputation with independently derived localized keys",
                text="Every datagram of generated v3 histories (varying engine id / user lengths, boots/time widths, request sizes across length-form boundaries, key types) has its HMAC-96 and flags recomputed independently. A second stage covers sessions of the real clients that install their keys after discovery.",
                note="hashlib/hmac and refusm.py key derivation (RFC 3414 A.3 vectors checked at import)."),
    "C10": dict(level="fault_enumeration", tech="complete enumeration of the forgery class grid + property-based variation (Hypothesis); oracle = acceptance rule of the property, positive control included",
                text="Every (digest, cipher, MAC class, flag, clear/encrypted, body, operation) combination is sent as an otherwise matching reply followed by the genuine one; forged GetResponses must be skipped, authentic ones delivered. A second stage covers sessions of the real clients that install their keys after discovery (also after a failed first attempt).",
                note="Forged replies copy user, engine id, msgID and request-id from the wire; Reports may be accepted either way."),
    "C11": dict(level="exploration", tech="property-based session histories (Hypothesis); oracle = independent pure-Python DES-CBC / AES-128-CFB decrypting every emitted message, and exact delivery of agent-encrypted replies",
                text="Histories of sends, encrypted replies (own salts, arbitrary padding), clear Reports, time-outs and garbage on privacy sessions; each ciphertext must decrypt to exactly the expected scoped PDU plus less than one block of padding. A second stage covers sessions of the real clients that install their keys after discovery.",
                note="refusm.py DES/AES validated on FIPS 81 / SP 800-38A / FIPS 197 vectors at import."),
    "C12": dict(level="exploration", tech="property-based testing (Hypothesis) against hashlib implementations of RFC 3414 A.2; session keys observed through MAC validity and decryptability; malformed-material grid with outcome-class oracle",
                text="Password lengths around 2^20 and its divisors, engine ids 0..32 octets, all key types through the raw constructor, set_keys and User/*Key; malformed keys / codes / empty passwords must raise an Exception; master / localized privacy keys of 0..64 octets are aligned to the auth digest size by User() and used so. A second stage covers keys installed after discovery by the real clients.",
                note="Master keys of non-standard size are legal at the Rust layer (the unit tests use them); the Python key classes pad."),
    "C13": dict(level="exploration", tech="property-based agent personalities and session histories (Hypothesis) against a model of the session's view of (engine id, boots, time)",
                text="Discovery / given engine id x with / refresh() / none x sync / async x all security levels: every message's USM header, MAC and ciphertext must follow the model; foreign-engine replies must be dropped. Histories include a first probe that is lost or answered by garbage, a foreign stray before the first Report, and replies that match in everything but the request-id.",
                note="Localized keys are derived by the caller for the agent's engine id."),
    "C14": dict(level="exploration", tech="property-based long send sequences (Hypothesis); invariant oracle over the history of msgPrivacyParameters + leak scan of marker OIDs after reference decryption",
                text="Sequences of up to 2000 (quick) / 10^5 (thorough) sends with interleaved receives, time-outs, boots changes and set_keys; salts must be 8 octets, advance by one, never repeat per installation; marker arcs never appear outside msgData. A second stage covers sessions of the real clients that install their keys after discovery.",
                note="Counter wrap-around is out of reach (random private seed)."),
    "C15": dict(level="exploration", engine=E2, tech="property-based testing (proptest) + exhaustive enumeration of 1..3-octet INTEGERs and boundary neighbourhoods; oracle = independent minimal encoder (byte equality) and round-trip",
                text="Every i64 of 1..2 (quick) / 1..3 (thorough) content octets and boundary neighbourhoods exhaustively, random i64, OIDs, OCTET STRINGs and v1/v2c/v3 request messages: encode == independent minimal encoder, decode(encode(x)) == x; scoped PDUs through the library's DES / AES encrypt -> decrypt -> decode give the PDU back, ciphertext length = reference length + < 1 block.",
                note="Runs inside a mirror of the crate compiled from /repo/src; if the harness no longer builds the check is inconclusive (exit 2)."),
    "C16": dict(level="exploration", engine=E2, tech="metamorphic property testing (proptest) + coverage-guided fuzzing (libFuzzer/ASan): from_ber(x||s) == (s, from_ber(x)); trailing bytes and nested length overruns must be rejected; plus property-based live DES / AES sessions (Hypothesis) with truncated encrypted payloads",
                text="(x, s) pairs over all decoders and SnmpValue with suffixes biased to what an over-reading decoder would swallow; whole messages with appended bytes and inner lengths raised past their parent. A live part sends DES / AES replies whose encrypted payload ends 1..15 octets before the scoped PDU it declares; they must be refused.",
                note="Only real containers are attacked; OCTET STRING payloads are opaque."),
    "C17": dict(level="exploration", tech="property-based size sweeps (Hypothesis, octet-by-octet around CAP) with dichotomy oracle + model-based testing of Buffer op sequences against a Vec model (proptest; libFuzzer/ASan)",
                text="Requests grown to target sizes around 127/128, 255/256 and the buffer capacity on every configuration: either one strictly decodable datagram or SnmpEncodeError with nothing sent, follow-up requests unaffected; Buffer ops compared with a shadow model after every step.",
                note="CAP read from src/buf/buffer.rs; random id widths give a few octets of slack in which either branch is accepted."),
    "C18": dict(level="fault_enumeration", tech="generated arrival schedules (Hypothesis) executed in parallel worker processes; wall-clock oracle with slack and triple confirmation",
                text="Schedules of non-matching datagrams (Responses and Reports with foreign ids, also in the last 0.1-1.5 ms before the deadline) and early/late replies against sync and async sessions, including v3 sessions whose first call is the engine-id discovery refresh() with foreign-engine Reports ahead of the genuine one; a timely reply must be delivered, otherwise TimeoutError within T + slack; late replies must not be delivered; a call that does not return within 120 s is reported as call-never-returned.",
                note="The only wall-clock oracle: overruns must reproduce in two isolated re-runs; disagreement is logged as scheduling noise."),
    "C19": dict(level="exploration", tech="property-based testing (Hypothesis) of call-time sequences + bounded-exhaustive DFS with the real get_timeout as transition function; invariant oracle from exact rational interval",
                text="Generated and exhaustively enumerated timestamp sequences against the real RPSPolicer; invariants delay<=I and window spans >(k-1)I checked over all pairs in O(n); sessions must consult the policer once per request, and sync / async sessions built with limit_rps=R must take longer than (k-1)/R for k+1 requests.",
                note="Assumes a monotonic clock and sequential callers as the property states."),
}

checks = []
for p in props:
    c = CHECKS.get(p["id"])
    if not c:
        continue
    checks.append({
        "property_id": p["id"],
        "quick_cmd": "./check %s --tier quick" % p["id"],
        "thorough_cmd": "./check %s --tier thorough" % p["id"],
        "evidence_file": "evidence/%s.json" % p["id"],
        "replay_cmd_template": "./check %s --replay {path}" % p["id"],
        "engine": c.get("engine", "pyagent"),
        "level_claimed": {"category": c["level"], "text": c["text"], "design_ref": "DESIGN.md section 6 (%s)" % p["id"]},
        "level_note": c["note"],
        "technique": c["tech"],
    })

na = [{"property_id": p["id"], "reason": "check not built yet (work in progress; plan in DESIGN.md section 6)"}
      for p in props if p["id"] not in CHECKS]
m = {
    "version": 1,
    "setup_cmd": "./setup.sh",
    "hooks": {
        "guard": "none - no guarded source change exists in /repo (the Rust harness compiles /repo/src through #[path] modules)",
        "enable": "n/a: checks build /repo's working tree as is (release profile for the extension; mirror crate for harness binaries)",
        "baseline_off_cmd": "cd /repo && cargo test --workspace --no-fail-fast --offline",
        "source_commits": [],
        "add_only": True,
    },
    "engines": [
        {"name": "pyagent", "path": "py/", "serves_properties": sorted(set(k for k, v in CHECKS.items() if v.get("engine", "pyagent") == "pyagent") | {"C16"}), "kind_free_text": E1},
        {"name": "rsprop", "path": "rs/harness, rs/bins", "serves_properties": ["C02", "C15", "C16", "C17"], "kind_free_text": "proptest runners inside a mirror crate compiled from /repo/src"},
        {"name": "rsfuzz", "path": "rs/fuzz", "serves_properties": ["C01", "C16", "C17"], "kind_free_text": "cargo-fuzz (libFuzzer + ASan) targets over the mirror crate"},
    ],
    "checks": checks,
    "notes": "All checks: ./check <ID> [--tier quick|thorough] [--replay FILE]; VERIF_SEED seeds every generator. Exit 0 held / 1 violation / 2 inconclusive (build failure, harness fault, or a generated case stuck for more than 300 s). An exception raised by the library itself that no check anticipated is a violation (library-raised:*), one raised by harness code is exit 2.",
    "not_applicable": na,
}
json.dump(m, open(os.path.join(V, "MANIFEST.json"), "w"), indent=1)
print("checks:", [c["property_id"] for c in checks], "na:", len(na))
