#!/usr/bin/env python3
"""Mutation self-test of the checks against the library's PYTHON layer (not a registered check).

usage: python3-vt tools/pymut.py list                       -> enumerate mutants (id file:line description)
       python3-vt tools/pymut.py run [-j N] [ids...]        -> run the relevant quick checks on each mutant
Results go to .build/pymut/results.jsonl (one line per mutant: id, site, first check that reported a VIOLATION or
"survived").  Survivors are candidates only: a mutant may be equivalent, or break nothing that a listed property states.

Mutants are made with `ast`: comparison / boolean operator swaps, negated conditions, constant nudges, arithmetic
operator swaps, deletion of simple statements.  The extension (_fast.so) is the unchanged tree's; the mutated package is
handed to the checks through VERIF_PKG_OVERRIDE, evidence goes to the scratch directory.
"""
import ast
import copy
import json
import os
import shutil
import subprocess
import sys
from concurrent.futures import ThreadPoolExecutor

VERIF = os.path.dirname(os.path.dirname(os.path.abspath(__file__)))
sys.path.insert(0, os.path.join(VERIF, "py"))
OUT = os.path.join(VERIF, ".build", "pymut")

# file (relative to gufo/snmp) -> checks to run, cheapest / most likely first
TARGETS = {
    "policer.py": ["C19"],
    "user.py": ["C12", "C13", "C09"],
    "sync_client/getnext.py": ["C05", "C06", "C19", "C04", "C02", "C18"],
    "sync_client/getbulk.py": ["C05", "C06", "C19", "C04", "C02", "C18"],
    "sync_client/client.py": ["C07", "C05", "C13", "C03", "C04", "C06", "C02", "C18", "C19"],
    "async_client/client.py": ["C07", "C05", "C13", "C03", "C04", "C06", "C02", "C18", "C19"],
}
CMP = {ast.Lt: ast.LtE, ast.LtE: ast.Lt, ast.Gt: ast.GtE, ast.GtE: ast.Gt, ast.Eq: ast.NotEq, ast.NotEq: ast.Eq,
       ast.Is: ast.IsNot, ast.IsNot: ast.Is, ast.In: ast.NotIn, ast.NotIn: ast.In}
BIN = {ast.Add: ast.Sub, ast.Sub: ast.Add, ast.Mult: ast.FloorDiv, ast.FloorDiv: ast.Mult, ast.Div: ast.Mult, ast.Mod: ast.FloorDiv}


def is_docstring(node, parent):
    return (isinstance(node, ast.Expr) and isinstance(node.value, ast.Constant) and isinstance(node.value.value, str))


def enumerate_mutants(src):
    """Yield (line, description, mutated_source)."""
    tree = ast.parse(src)
    nodes = [n for n in ast.walk(tree)]
    # index nodes so that a deep copy can be addressed by position
    for i, n in enumerate(nodes):
        n._idx = i

    def mutated(apply):
        t = copy.deepcopy(tree)
        m = {n._idx: n for n in ast.walk(t) if hasattr(n, "_idx")}
        apply(m)
        ast.fix_missing_locations(t)
        return ast.unparse(t)

    for n in nodes:
        ln = getattr(n, "lineno", 0)
        if isinstance(n, ast.Compare):
            for k, op in enumerate(n.ops):
                if type(op) in CMP:
                    new = CMP[type(op)]
                    yield ln, "%s -> %s" % (type(op).__name__, new.__name__), mutated(lambda m, i=n._idx, k=k, new=new: m[i].ops.__setitem__(k, new()))
        if isinstance(n, ast.BoolOp):
            new = ast.Or if isinstance(n.op, ast.And) else ast.And
            yield ln, "%s -> %s" % (type(n.op).__name__, new.__name__), mutated(lambda m, i=n._idx, new=new: setattr(m[i], "op", new()))
        if isinstance(n, (ast.If, ast.While, ast.IfExp)):
            yield ln, "negate condition", mutated(lambda m, i=n._idx: setattr(m[i], "test", ast.UnaryOp(op=ast.Not(), operand=m[i].test)))
        if isinstance(n, ast.BinOp) and type(n.op) in BIN:
            new = BIN[type(n.op)]
            yield ln, "%s -> %s" % (type(n.op).__name__, new.__name__), mutated(lambda m, i=n._idx, new=new: setattr(m[i], "op", new()))
        if isinstance(n, ast.Constant) and not isinstance(n.value, (str, bytes)) and n.value is not None and n.value is not Ellipsis:
            if isinstance(n.value, bool):
                yield ln, "%r -> %r" % (n.value, not n.value), mutated(lambda m, i=n._idx: setattr(m[i], "value", not m[i].value))
            elif isinstance(n.value, (int, float)):
                yield ln, "%r -> %r" % (n.value, n.value + 1), mutated(lambda m, i=n._idx: setattr(m[i], "value", m[i].value + 1))
                if n.value:
                    yield ln, "%r -> 0" % (n.value,), mutated(lambda m, i=n._idx: setattr(m[i], "value", 0))
        if isinstance(n, (ast.Expr, ast.Assign, ast.AugAssign, ast.Raise, ast.Return, ast.Continue, ast.Break)) and not is_docstring(n, None):
            if isinstance(n, ast.Return) and n.value is None:
                continue

            def drop(m, i=n._idx):
                # replace the statement by `pass` wherever it sits
                for p in m.values():
                    for field in ("body", "orelse", "finalbody"):
                        seq = getattr(p, field, None)
                        if isinstance(seq, list):
                            for k, s in enumerate(seq):
                                if s is m[i]:
                                    seq[k] = ast.Pass()
                                    return
            yield ln, "delete %s" % type(n).__name__, mutated(drop)
        if isinstance(n, ast.ExceptHandler) and n.type is not None:
            # handler never matches: the exception propagates
            yield ln, "except clause disabled", mutated(lambda m, i=n._idx: setattr(m[i], "type", ast.Name(id="_NeverRaised_", ctx=ast.Load())))


def all_mutants(base_pkg):
    out = []
    for rel in TARGETS:
        path = os.path.join(base_pkg, "gufo", "snmp", rel)
        src = open(path).read()
        norm = ast.unparse(ast.parse(src))
        seen = set()
        k = 0
        for ln, desc, msrc in enumerate_mutants(src):
            if msrc == norm or msrc in seen:
                continue
            seen.add(msrc)
            try:
                compile(msrc, rel, "exec")
            except SyntaxError:
                continue
            if "_NeverRaised_" in msrc:
                msrc = "class _NeverRaised_(BaseException):\n    pass\n\n\n" + msrc
                # keep `from __future__` first if present
                if "from __future__" in msrc:
                    lines = msrc.splitlines()
                    fut = [l for l in lines if l.startswith("from __future__")]
                    lines = [l for l in lines if not l.startswith("from __future__")]
                    msrc = "\n".join(fut + lines) + "\n"
            k += 1
            out.append({"id": "%s#%03d" % (rel.replace("/", ".").replace(".py", ""), k), "file": rel, "line": ln, "desc": desc, "src": msrc})
    return out


def run_one(m, base_pkg, line_text):
    d = os.path.join(OUT, "pkg-" + m["id"].replace("#", "_"))
    shutil.rmtree(d, ignore_errors=True)
    shutil.copytree(base_pkg, d, ignore=shutil.ignore_patterns("__pycache__"))
    with open(os.path.join(d, "gufo", "snmp", m["file"]), "w") as fh:
        fh.write(m["src"])
    env = dict(os.environ, VERIF_PKG_OVERRIDE=d, VERIF_SEED="0", PYTHONDONTWRITEBYTECODE="1")
    res = {"id": m["id"], "file": m["file"], "line": m["line"], "desc": m["desc"], "text": line_text, "caught_by": None, "outcomes": {}}
    for pid in TARGETS[m["file"]]:
        try:
            p = subprocess.run([os.path.join(VERIF, "check"), pid, "--tier", "quick"], env=env, capture_output=True, text=True, timeout=1500)
            rc = p.returncode
            sig = ""
            for l in p.stdout.splitlines():
                if l.strip().startswith("signature:"):
                    sig = l.strip()[10:].strip()
                    break
        except subprocess.TimeoutExpired:
            rc, sig = 99, "timeout"
        res["outcomes"][pid] = [rc, sig]
        if rc == 1:
            res["caught_by"] = pid
            break
    shutil.rmtree(d, ignore_errors=True)
    return res


def main():
    from vlib import build
    base_pkg = build.ensure_ext()
    ms = all_mutants(base_pkg)
    if len(sys.argv) < 2 or sys.argv[1] == "list":
        for m in ms:
            print(m["id"], "%s:%d" % (m["file"], m["line"]), m["desc"])
        print(len(ms), "mutants")
        return
    args = sys.argv[2:]
    jobs = 6
    if args[:1] == ["-j"]:
        jobs = int(args[1])
        args = args[2:]
    if args:
        ms = [m for m in ms if any(m["id"].startswith(a) for a in args)]
    os.makedirs(OUT, exist_ok=True)
    done = set()
    resf = os.path.join(OUT, "results.jsonl")
    if os.path.exists(resf):
        for l in open(resf):
            done.add(json.loads(l)["id"])
    ms = [m for m in ms if m["id"] not in done]
    srcs = {rel: open(os.path.join(base_pkg, "gufo", "snmp", rel)).read().splitlines() for rel in TARGETS}
    with ThreadPoolExecutor(jobs) as ex, open(resf, "a") as fh:
        futs = [ex.submit(run_one, m, base_pkg, srcs[m["file"]][m["line"] - 1].strip() if m["line"] else "") for m in ms]
        for f in futs:
            r = f.result()
            fh.write(json.dumps(r) + "\n")
            fh.flush()
            print(r["id"], r["file"], r["line"], r["desc"], "->", r["caught_by"] or "SURVIVED", flush=True)


main()
