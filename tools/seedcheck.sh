#!/bin/bash
# usage: tools/seedcheck.sh <seed-dir> <demo-file> -- <ID> [<ID>...]
# Confirms a seeded change: applies seeded/<dir>/patch.diff to a scratch copy of /repo, runs the pinned unit tests,
# runs the demonstration on the unchanged and on the changed build, then runs the named checks against the copy.
set -u
S=/verif/seeded/$1; DEMO=$2; shift 2; [ "$1" = "--" ] && shift
D=${MUT_DIR:-/tmp/gufo-mut}; LOG=$(mktemp -d)
rm -rf $D; rsync -a --exclude target --exclude .git /repo/ $D/
trap "rm -rf $D $LOG" EXIT
(cd $D && patch -p1 -s < $S/patch.diff) || { echo "PATCH DOES NOT APPLY"; exit 3; }
echo "== unit tests on changed tree"; (cd $D && CARGO_NET_OFFLINE=true CARGO_TARGET_DIR=${MUT_TEST_TARGET:-/verif/.build/mut-test-target} cargo test --offline 2>&1 | grep -E "^test result|FAILED|^error" | head -5)
PKG0=$(cd /verif/py && python3-vt -c "from vlib import build; print(build.ensure_ext())" 2>/dev/null)
PKG1=$(cd /verif/py && VERIF_REPO=$D python3-vt -c "from vlib import build; print(build.ensure_ext())" 2>/dev/null)
echo "== demo on unchanged tree ($PKG0)"; (cd $S && PYTHONPATH=$PKG0 timeout 300 python3 $DEMO >$LOG/demo0.log 2>&1; echo "exit=$?"; tail -3 $LOG/demo0.log)
echo "== demo on changed tree ($PKG1)"; (cd $S && PYTHONPATH=$PKG1 timeout 300 python3 $DEMO >$LOG/demo1.log 2>&1; echo "exit=$?"; tail -3 $LOG/demo1.log)
for id in "$@"; do
  echo "== check $id on changed tree"
  VERIF_REPO=$D /verif/check $id ${MUT_TIER:+--tier $MUT_TIER} 2>&1 | grep -E "VIOLATION|signature|KNOWN|held|VIOLATED|INCONCLUSIVE" | cut -c1-300 | head -6
done
