#!/bin/bash
# Run every registered quick (or $1=thorough) check once; print exit code and wall time; validate evidence files.
cd /verif
TIER=${1:-quick}
for id in $(python3 -c "import json;print(' '.join(c['property_id'] for c in json.load(open('MANIFEST.json'))['checks']))"); do
  s=$(date +%s.%N)
  out=$(./check $id --tier $TIER 2>/dev/null); rc=$?
  e=$(date +%s.%N)
  printf "%s rc=%d %.0fs %s\n" $id $rc $(echo "$e - $s" | bc) "$(echo "$out" | grep -E "VIOLATION|KNOWN|INCONC" | head -2 | tr '\n' ' ')"
done
python3-vt - <<'PY'
import json,jsonschema,glob
sch=json.load(open('/root/.vp/EVIDENCE.schema.json'))
for f in sorted(glob.glob('/verif/evidence/*.json')):
    try:
        jsonschema.validate(json.load(open(f)),sch)
    except Exception as e:
        print('INVALID',f,str(e)[:200])
print('evidence validated')
PY
