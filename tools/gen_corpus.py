#!/usr/bin/env python3
"""Write the committed seed corpus for the libFuzzer targets (run once, by hand; output is committed)."""
import hashlib
import os
import sys

V = os.path.dirname(os.path.dirname(os.path.abspath(__file__)))
sys.path.insert(0, os.path.join(V, "py"))
from vlib import agent as ag  # noqa: E402
from vlib import gen  # noqa: E402
from vlib import refber as rb  # noqa: E402
from vlib import refusm as ru  # noqa: E402


def put(target, data, tag=""):
    d = os.path.join(V, "corpus", target)
    os.makedirs(d, exist_ok=True)
    name = (tag + "-" if tag else "") + hashlib.sha1(data).hexdigest()[:12]
    with open(os.path.join(d, name), "wb") as fh:
        fh.write(data)


def main():
    eid = gen.ENGINE_IDS[0]
    values = {
        "int": rb.enc_int(-129), "int8": rb.enc_int(-(1 << 63)), "c32": rb.tlv(rb.T_COUNTER32, rb.uint_content(2 ** 32 - 1)),
        "c64": rb.tlv(rb.T_COUNTER64, rb.uint_content(2 ** 64 - 1)), "g32": rb.tlv(rb.T_GAUGE32, b"\x07"), "tt": rb.tlv(rb.T_TIMETICKS, b"\x01\x00"),
        "u32": rb.tlv(rb.T_UINTEGER32, b"\x05"), "str": rb.tlv(rb.T_OCTETS, b"Gufo SNMP"), "opaque": rb.tlv(rb.T_OPAQUE, b"\x9f\x78\x04\x42\xf6\x00\x00"),
        "od": rb.tlv(rb.T_OBJDESC, b"descr"), "ip": rb.tlv(rb.T_IPADDR, b"\x7f\x00\x00\x01"), "oid": rb.enc_oid((1, 3, 6, 1, 4, 1, 16384, 255)),
        "bool": rb.tlv(rb.T_BOOL, b"\xff"), "null": rb.tlv(rb.T_NULL, b""), "real0": rb.tlv(rb.T_REAL, b""),
        "realnr1": rb.tlv(rb.T_REAL, rb.real_decimal_content(1, "456")), "realnr3": rb.tlv(rb.T_REAL, rb.real_decimal_content(3, "15E-1")),
        "realbin": rb.tlv(rb.T_REAL, rb.real_binary_content(-1, 5, 2, 1, -3)), "realinf": rb.tlv(rb.T_REAL, rb.REAL_PLUS_INF),
        "nso": rb.tlv(rb.T_NOSUCHOBJECT, b""), "nsi": rb.tlv(rb.T_NOSUCHINSTANCE, b""), "eom": rb.tlv(rb.T_ENDOFMIBVIEW, b""),
        "reloid": rb.tlv(rb.T_RELOID, b"\x0c\x81\x00"), "seq": rb.tlv(rb.T_SEQ, rb.enc_int(1)),
    }
    kinds = ["bool", "int", "null", "str", "oid", "od", "realnr1", "ip", "c32", "g32", "tt", "opaque", "c64", "u32", "reloid", "seq", "nso", "nsi", "eom"]
    for i, k in enumerate(kinds):
        put("decoders", bytes([9 + i]) + values[k], "el-" + k)
    for k in ("int8", "real0", "realnr3", "realbin", "realinf"):
        put("decoders", bytes([9 + (1 if k == "int8" else 6)]) + values[k], "el-" + k)
    name = rb.enc_oid((1, 3, 6, 1, 2, 1, 1, 3, 0))
    req = {"request_id": 0x12345678, "msg_id": 0x1020304, "engine_id": eid, "boots": 7, "time": 1000, "user": b"user"}
    for k, v in values.items():
        if k in ("reloid", "seq"):
            continue
        vbs = [rb.varbind(name, v), rb.varbind(rb.enc_oid((1, 3, 6, 1, 2, 1, 1, 5, 0)), rb.tlv(rb.T_OCTETS, b"x"))]
        put("decoders", b"\x00" + ag.build_reply(ag.Cfg("v1"), req, vbs), "v1-" + k)
        put("decoders", b"\x01" + ag.build_reply(ag.Cfg("v2c"), req, vbs), "v2c-" + k)
        put("decoders", b"\x02" + ag.build_reply(ag.Cfg("v3", engine_id=eid), req, vbs), "v3-" + k)
    # relative OID varbind, report, requests
    vbs = [rb.varbind(name, rb.enc_int(1)), rb.tlv(rb.T_SEQ, rb.tlv(rb.T_RELOID, b"\x05\x00") + rb.enc_int(2))]
    put("decoders", b"\x01" + ag.build_reply(ag.Cfg("v2c"), req, vbs), "v2c-rel")
    cfg3 = ag.Cfg("v3", engine_id=eid, auth="sha1", priv="aes", auth_kt="localized", priv_kt="localized")
    put("decoders", b"\x02" + ag.build_reply(cfg3, req, [rb.varbind(name, rb.enc_int(5))]), "v3-authpriv")
    put("decoders", b"\x02" + ag.build_report(ag.Cfg("v3", engine_id=eid), req, eid, 3, 4), "v3-report")
    put("decoders", b"\x01" + rb.msg_community(1, b"public", rb.pdu(rb.PDU_GETBULK, 5, 0, 10, [rb.varbind(name, rb.tlv(rb.T_NULL, b""))])), "v2c-getbulk")
    # decrypt path: key(16) boots(4) time(4) saltlen salt ciphertext
    key = bytes(range(16))
    sc = rb.scoped_pdu(eid, b"", rb.pdu(rb.PDU_RESPONSE, 77, 0, 0, [rb.varbind(name, rb.enc_int(5))]))
    salt = b"\x01\x02\x03\x04\x05\x06\x07\x08"
    pad = sc + b"\0" * ((-len(sc)) % 8)
    put("decoders", b"\x07" + key + (7).to_bytes(4, "big") + (9).to_bytes(4, "big") + b"\x08" + salt + ru.des_cbc_encrypt(key[:8], ru.des_iv(key, salt), pad), "des")
    put("decoders", b"\x08" + key + (7).to_bytes(4, "big") + (9).to_bytes(4, "big") + b"\x08" + salt + ru.usm_aes_encrypt(key, 7, 9, salt, sc), "aes")
    put("decoders", b"\x08" + key + (7).to_bytes(4, "big") + (9).to_bytes(4, "big") + b"\x05" + salt[:5] + b"\x00" * 16, "aes-salt5")
    put("decoders", b"\x06" + sc, "scoped")
    # regression inputs: the crashes found at the pinned commit
    for i, raw in enumerate([b"\x1f\x80", b"\x30\x81", b"\xf0\x02\x7f\x00", b"\x30\x88" + b"\xff" * 8, b"\x09\x01\x80"]):
        for mode in (0, 1, 2, 13, 15):
            put("decoders", bytes([mode]) + raw, "reg%d" % i)
    empty_vb = rb.msg_community(1, b"public", rb.pdu(rb.PDU_RESPONSE, 5, 0, 0, [b"\x30\x00"]))
    put("decoders", b"\x01" + empty_vb, "reg-emptyvb")
    # recv_path: byte0 = session + 9*op, byte1 = mode (2: payload is a PDU with a request-id placeholder, wrapped by the target)
    rid = b"\x02\x04\xaa\xaa\xaa\xaa"
    under = rb.enc_oid((1, 3, 6, 1, 2, 1, 1, 3, 0))
    for k, v in values.items():
        if k in ("reloid", "seq"):
            continue
        body = rid + rb.enc_int(0) + rb.enc_int(0) + rb.tlv(rb.T_SEQ, rb.varbind(under, v) + rb.varbind(rb.enc_oid((1, 3, 6, 1, 2, 1, 1, 5, 0)), rb.tlv(rb.T_OCTETS, b"x")))
        pdu1 = rb.tlv(rb.PDU_RESPONSE, rid + rb.enc_int(0) + rb.enc_int(0) + rb.tlv(rb.T_SEQ, rb.varbind(under, v)))
        pdu2 = rb.tlv(rb.PDU_RESPONSE, body)
        n = len(k) * 7
        for sess in range(9):
            op = (n + sess) % 5
            put("recv_path", bytes([sess + 9 * op, 2]) + (pdu2 if op in (1, 3) else pdu1), "wrap-%s-%d" % (k, sess))
    put("recv_path", bytes([2 + 9 * 4, 2]) + rb.tlv(rb.PDU_REPORT, rid + rb.enc_int(0) + rb.enc_int(0) + rb.tlv(rb.T_SEQ, b"")), "report")
    put("recv_path", bytes([1, 1]) + rb.msg_community(1, b"public", rb.tlv(rb.PDU_RESPONSE, rid + rb.enc_int(0) + rb.enc_int(0) + rb.tlv(rb.T_SEQ, rb.varbind(under, rb.enc_int(7))))), "patch-v2c")
    put("recv_path", bytes([6, 3]) + b"\x05" + rb.tlv(rb.PDU_RESPONSE, rid + rb.enc_int(0) + rb.enc_int(0) + rb.tlv(rb.T_SEQ, rb.varbind(under, rb.enc_int(7)))), "salt5")
    # buffer_ops: a few op programs
    for prog in (b"\x00\x05\x00\x03\x90\x04\x05\x92\x07", b"\x07\x93\x01\x00\x85\x02\x08\x00\x00\x05\x8e\x03", b"\x0b\x10\x02\x00\x92\x01\x05\x93\x09\x03\x8f\x00"):
        put("buffer_ops", prog)


if __name__ == "__main__":
    main()
