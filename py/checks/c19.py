"""C19 - The rate limiter never lets the request rate exceed rps.

Engine: Hypothesis sequences + bounded-exhaustive DFS with the real
RPSPolicer.get_timeout as the transition function.
Oracle (independent): I = floor(1e9/rps) from exact rationals;
  * delay_i in [0, I]; first call not delayed
  * for every i<j: release_j - release_i > (j-i-1)*I      (rate never exceeds rps)
  * constructor refuses rps<=0 and rps that give I=0, accepts the rest
  * wait()/wait_sync() sleep exactly the returned delay
  * (with the extension) every request of a rate-limited session consults the
    policer exactly once before it is sent
"""
import asyncio
import copy
import importlib.util
import math
import os
from fractions import Fraction

from hypothesis import strategies as st

from vlib import build, core

LEVEL = "exploration"
NS = 10 ** 9


def load_policer():
    path = os.path.join(build.ensure_pyonly(), "policer.py")
    spec = importlib.util.spec_from_file_location("verif_policer_under_test", path)
    mod = importlib.util.module_from_spec(spec)
    spec.loader.exec_module(mod)
    return mod


def exact_interval(rps):
    return int(Fraction(NS) / Fraction(rps))  # floor for positives


RPS_FIXED = [0.5, 1, 1.0, 3, 7, 10, 33.3, 1000, 1e6, 123456.789, 2.5e8] + [1e9 / d for d in range(1, 17)]

gap_kind = st.sampled_from(["zero", "one", "I-1", "I", "I+1", "kI", "kI-1", "kI+1", "frac", "huge", "small"])
gap = st.tuples(gap_kind, st.integers(1, 9), st.integers(0, 10 ** 6))
rps_st = st.one_of(st.sampled_from(RPS_FIXED), st.floats(min_value=0.01, max_value=1e9, allow_nan=False),
                   st.integers(1, 10 ** 9))
case_strategy = st.tuples(rps_st, st.lists(gap, min_size=1, max_size=40), st.integers(0, 2 ** 62))
long_strategy = st.tuples(rps_st, st.lists(gap, min_size=50, max_size=200), st.integers(0, 2 ** 62))


def gap_ns(g, interval):
    kind, k, r = g
    if kind == "zero":
        return 0
    if kind == "one":
        return 1
    if kind == "I-1":
        return max(0, interval - 1)
    if kind == "I":
        return interval
    if kind == "I+1":
        return interval + 1
    if kind == "kI":
        return k * interval
    if kind == "kI-1":
        return max(0, k * interval - 1)
    if kind == "kI+1":
        return k * interval + 1
    if kind == "frac":
        return (interval * r) // 10 ** 6
    if kind == "small":
        return r % 7
    return interval * (k * 1000 + r)


def observed_interval(mod, rps):
    p = mod.RPSPolicer(rps)
    p.get_timeout(10 ** 12)
    d = p.get_timeout(10 ** 12)
    return d


def check_interval(mod, rps):
    ie = exact_interval(rps)
    io = observed_interval(mod, rps)
    if not isinstance(io, int) or isinstance(io, bool):
        raise core.Failure("interval-type", "second immediate call returned %r, expected an int delay" % (io,))
    # float division may differ from the exact quotient by an ulp
    if abs(io - ie) > max(1, ie // 10 ** 9):
        raise core.Failure("interval-value", "rps=%r: immediate second call delayed by %d ns, 1/rps is %d ns" % (rps, io, ie))
    return io


def run_sequence(mod, rps, gaps, t0):
    """Returns (nontrivial, info). Raises Failure."""
    interval = check_interval(mod, rps)
    p = mod.RPSPolicer(rps)
    ts = t0
    best = None  # max over i of release_i - i*I
    early = idle = False
    rel_prev = None
    for i, g in enumerate([None] + list(gaps)):
        if g is not None:
            gn = gap_ns(g, interval)
            ts = rel_prev + gn
            if gn < interval:
                early = True
            if gn > 2 * interval:
                idle = True
        d = p.get_timeout(ts)
        if d is None:
            d = 0
        elif not isinstance(d, int) or isinstance(d, bool):
            raise core.Failure("delay-type", "get_timeout returned %r" % (d,))
        if i == 0 and d != 0:
            raise core.Failure("first-delayed", "first call delayed by %d" % d)
        if d < 0 or d > interval:
            raise core.Failure("delay-range", "call %d at ts=%d: delay %d outside [0, %d]" % (i, ts, d, interval))
        rel = ts + d
        a = rel - i * interval
        if best is not None and not (a > best - interval):
            raise core.Failure("rate-exceeded",
                               "release %d at %d: some earlier window of k+1 releases spans <= (k-1)*I (I=%d)" % (i, rel, interval))
        best = a if best is None else max(best, a)
        rel_prev = rel
    return early and idle


def body_factory(rep, mod):
    def body(case):
        rps, gaps, t0 = case
        ie = exact_interval(rps)
        if ie < 1:
            return
        nt = run_sequence(mod, rps, gaps, t0)
        rep.case(("seq", repr(rps), tuple(gaps), t0), nt,
                 sample={"rps": rps, "interval_ns": ie, "gaps_ns": [gap_ns(g, ie) for g in gaps][:12], "n": len(gaps)},
                 classes=("seq_nontrivial" if nt else "seq_trivial", "len>=50" if len(gaps) >= 50 else "len<50"))
    return body


def exhaustive(rep, mod, plan):
    """All gap words over {0..3d} up to the given depth for each interval d (plan: list of (d, depth)); DFS with the
    real policer copied at each node."""
    total = 0
    for d, depth in plan:
        rps = 1e9 / d
        interval = check_interval(mod, rps)
        if interval != d:
            raise core.Failure("interval-value", "rps=1e9/%d gives interval %d" % (d, interval))
        gaps = list(range(0, 3 * d + 1))
        p0 = mod.RPSPolicer(rps)
        t0 = 1000
        first = p0.get_timeout(t0)
        if first not in (None, 0):
            raise core.Failure("first-delayed", "first call delayed by %r" % (first,))
        # iterative DFS: stack of (policer, last_release, index, best, word)
        stack = [(p0, t0, 0, t0, ())]
        while stack:
            p, rel_prev, i, best, word = stack.pop()
            if i >= depth:
                continue
            for g in gaps:
                q = copy.copy(p)
                ts = rel_prev + g
                dl = q.get_timeout(ts) or 0
                total += 1
                if dl < 0 or dl > interval:
                    raise core.Failure("delay-range", "d=%d word=%r: delay %d outside [0,%d]" % (d, word + (g,), dl, interval))
                rel = ts + dl
                a = rel - (i + 1) * interval
                if not (a > best - interval):
                    raise core.Failure("rate-exceeded", "d=%d gap word %r: window spans too little" % (d, word + (g,)))
                stack.append((q, rel, i + 1, max(best, a), word + (g,)))
    return total


def constructor_grid(rep, mod):
    import hypothesis  # noqa
    bad = [0, 0.0, -0.0, -1, -1e-9, -5.5, float("-inf"), 2e9, 1e10, 1e9 + 1, 1.0000001e9, float("inf")]
    for v in bad:
        try:
            mod.RPSPolicer(v)
        except ValueError:
            rep.case(("ctor-bad", repr(v)), True, sample={"ctor": repr(v), "outcome": "ValueError"}, classes=("ctor_refused",))
            continue
        except Exception as e:
            raise core.Failure("ctor-wrong-exception", "RPSPolicer(%r) raised %r, documented is ValueError" % (v, e))
        raise core.Failure("ctor-accepts-invalid", "RPSPolicer(%r) was accepted" % (v,))
    try:
        mod.RPSPolicer(float("nan"))
        raise core.Failure("ctor-accepts-invalid", "RPSPolicer(nan) was accepted")
    except core.Failure:
        raise
    except Exception:
        rep.case(("ctor-bad", "nan"), True, classes=("ctor_refused",))
    good = [1e-3, 0.5, 1, True, 3, 1e9, 999999999.0, 5e8, 10 ** 9, 1e9 / 3]
    for v in good:
        try:
            mod.RPSPolicer(v)
        except Exception as e:
            raise core.Failure("ctor-refuses-valid", "RPSPolicer(%r) raised %r" % (v, e))
        rep.case(("ctor-good", repr(v)), False, classes=("ctor_accepted",))


def wait_functions(rep, mod, seed):
    """wait()/wait_sync() must sleep exactly get_timeout()/1e9 seconds and consult the clock once."""
    import random
    rnd = random.Random(seed)  # only picks which fixed scenarios to run; not part of an oracle
    for trial in range(60):
        rps = rnd.choice([1, 3, 10, 1000, 1e6])
        interval = exact_interval(rps)
        p = mod.RPSPolicer(rps)
        ref = mod.RPSPolicer(rps)
        now = [10 ** 9]
        slept = []
        orig_sleep, orig_pc, orig_asleep = mod.sleep, mod.perf_counter_ns, mod.asyncio.sleep

        async def fake_asleep(x):
            slept.append(x)

        mod.sleep = lambda x: slept.append(x)
        mod.perf_counter_ns = lambda: now[0]
        mod.asyncio.sleep = fake_asleep
        try:
            for step in range(20):
                use_async = rnd.random() < 0.5
                slept.clear()
                expect = ref.get_timeout(now[0])
                if use_async:
                    asyncio.run(p.wait())
                else:
                    p.wait_sync()
                want = [] if not expect else [expect / 1e9]
                if len(slept) != len(want) or (want and abs(slept[0] - want[0]) > 1e-12 * max(1.0, want[0])):
                    raise core.Failure("wait-sleep", "wait%s slept %r, get_timeout said %r ns" % ("" if use_async else "_sync", slept, expect))
                now[0] += (expect or 0) + rnd.choice([0, 1, interval // 2, interval, 3 * interval])
                rep.case(("wait", trial, step), bool(expect), classes=("wait_async" if use_async else "wait_sync",))
        finally:
            mod.sleep, mod.perf_counter_ns, mod.asyncio.sleep = orig_sleep, orig_pc, orig_asleep


def session_consults_policer(rep):
    """Every request of a rate-limited session asks the policer exactly once
    before the datagram is sent (sync + async front-ends)."""
    from checks import common
    common.policer_integration(rep)


def run(rep, tier):
    mod = load_policer()
    rep.rule = ("Hypothesis: rps from fixed/boundary/random set x 1..200 gaps (relative to previous release; kinds 0,1,I-1,I,I+1,"
                "kI,kI+-1,fractions,huge); non-trivial = sequence with both an early call (gap<I) and an idle gap >2I; "
                "distinct by (rps, gap word, t0). Plus exhaustive DFS over gap words {0..3d}^<=depth for intervals d ns, "
                "constructor grid, wait()/wait_sync() sleep recording, session->policer integration.")
    rep.assumptions = ["monotonic clock, sequential callers (as the property states)",
                       "interval I = floor(1e9/rps) computed with exact rationals; the implementation's float division may differ by 1 ns"]
    n = 5000 if tier == "quick" else 200000
    try:
        constructor_grid(rep, mod)
        wait_functions(rep, mod, rep.seed)
    except core.Failure as f:
        rep.violation(f.signature, {"part": "grid"}, f.message)
        return
    desc = lambda c: {"rps": c[0], "gaps": c[1], "t0": c[2]}  # noqa: E731
    if core.run_hypothesis(rep, case_strategy, body_factory(rep, mod), n, describe=desc):
        return
    if core.run_hypothesis(rep, long_strategy, body_factory(rep, mod), n // 12, describe=desc):
        return
    try:
        plan = [(1, 6), (2, 6), (3, 6)] if tier == "quick" else [(1, 8), (2, 7), (3, 6), (4, 6), (5, 5), (6, 5), (7, 4), (8, 4)]
        total = exhaustive(rep, mod, plan)
        rep.evaluations += total
        rep.extra["exhaustive_nodes"] = total
        rep.extra["exhaustive_space"] = "all gap words over {0..3d} of length <= depth for (interval d ns, depth) in %r" % (plan,)
        rep.exhaustive = False  # the random part is not exhaustive; the DFS part is (see exhaustive_space)
    except core.Failure as f:
        rep.violation(f.signature, {"part": "exhaustive"}, f.message)
        return
    try:
        session_consults_policer(rep)
    except core.Failure as f:
        rep.violation(f.signature, {"part": "session"}, f.message)


def replay(rep, case, body=None):
    mod = load_policer()
    if "gaps" not in case:
        return
    try:
        run_sequence(mod, case["rps"], [tuple(g) for g in case["gaps"]], case["t0"])
    except core.Failure as f:
        rep.violation(f.signature, case, f.message)
