"""C14 - Privacy salts never repeat and nothing confidential goes in clear.

Generator: per key installation, sequences of n sends (quick n <= 2000, thorough up to 10^5) of mixed
request types and sizes, interleaved with receives, time-outs and boots changes, x {DES, AES}; every OID
carries two random 28-bit marker arcs; set_keys() in the middle starts a new installation.
Oracle: msgPrivacyParameters is 8 octets; DES = engine boots held by the session || counter, AES = 64-bit
counter, each advancing by exactly one per message; no value repeats within an installation; priv flag set;
after decrypting with the reference cipher no 6-octet window of the requested OIDs' marker arcs occurs outside msgData
(the context engine id legitimately also appears in the USM header and fixed PDU fields such as 02 01 00 coincide with boots/time).
"""
from checks import v3hist
from vlib import core, drivers, gen

LEVEL = "exploration"
REPLIES = ["foreign_report", "reply", "reply_time", "none", "none", "report", "reply", "garbage", "reply_pad"]


def build_case(u, tier="quick"):
    cfg = v3hist.g_v3cfg(u, need_priv=True)
    pattern = v3hist.g_steps(u, u.range(3, 48), REPLIES, marker=True, allow_set_keys=True)
    # a few requests that cannot be encoded (they fail locally with SnmpEncodeError and send nothing): whatever they do to
    # the salt counter, the salts of the messages that *are* sent must stay unique
    for _ in range(u.below(4)):
        big = ("call", ("get_many", ["1.3.6.1.4.1.%d.%d" % (4000000000 + i, 4000000000 - i) for i in range(420)]), "none", 0)
        pattern.insert(u.below(len(pattern) + 1), big)
    k = u.below(16)
    if tier == "quick":
        n = len(pattern) if k < 10 else (u.range(100, 400) if k < 15 else u.range(1000, 2000))
    else:
        n = len(pattern) if k < 6 else (u.range(200, 2000) if k < 14 else u.range(10000, 100000))
    return {"cfg": cfg, "pattern": pattern, "n": n}


def expand(c):
    p = c["pattern"]
    return [p[i % len(p)] for i in range(c["n"])]


def execute(G, c):
    cfg = c["cfg"]
    st = {"inst": -1, "prev": None, "seen": set(), "sends": 0, "leak_checked": 0, "failed": 0}

    def on_failed_send(idx, installation):
        st["failed"] += 1

    def on_request(model, m, d, idx, installation):
        if installation != st["inst"]:
            st["inst"], st["prev"], st["seen"], st["failed"] = installation, None, set(), 0
        salt = m["priv_params"]
        if len(salt) != 8:
            raise core.Failure("salt-length", "msgPrivacyParameters has %d octets" % len(salt))
        if not m["flags"] & 2:
            raise core.Failure("priv-flag-clear", "flags %#x on a privacy session" % m["flags"])
        if cfg.priv == "des":
            if int.from_bytes(salt[:4], "big") != (model.boots & 0xFFFFFFFF):
                raise core.Failure("des-salt-boots", "DES salt %s does not start with the engine boots %d held by the session" % (salt.hex(), model.boots))
            v, mod = int.from_bytes(salt[4:], "big"), 2 ** 32
        else:
            v, mod = int.from_bytes(salt, "big"), 2 ** 64
        # a send that failed locally may or may not have consumed a salt: the counter advances by 1 .. 1+failed
        step = None if st["prev"] is None else (v - st["prev"]) % mod
        if step is not None and not 1 <= step <= 1 + st["failed"]:
            raise core.Failure("salt-not-incremented:" + cfg.priv, "send %d: salt counter %d follows %d (%d locally failed sends in between; must advance by one per message)"
                               % (idx, v, st["prev"], st["failed"]))
        st["failed"] = 0
        key = salt if cfg.priv == "aes" else salt[4:]
        if key in st["seen"]:
            raise core.Failure("salt-repeated:" + cfg.priv, "send %d: salt %s already used under this key installation" % (idx, salt.hex()))
        st["seen"].add(key)
        st["prev"] = v
        st["sends"] += 1
        # confidentiality: nothing of the PDU outside msgData (decrypting every message of a long run is
        # expensive in pure Python; all messages of the first 64 and every 37th afterwards are examined)
        if idx < 64 or idx % 37 == 0:
            ds, de = m["data_span"]
            outside = d[:ds] + b"\xff" + d[de:]
            windows = {outside[i:i + 6] for i in range(len(outside) - 5)}
            from vlib import refber as rb
            for oid, _vt, _vc in m["varbinds"]:
                # the two trailing marker arcs are random 28-bit numbers: 8 octets that cannot occur by accident
                secret = rb.oid_content(oid)[-8:]
                for i in range(len(secret) - 5):
                    if secret[i:i + 6] in windows:
                        raise core.Failure("plaintext-leak", "send %d: OID octets %s appear outside the ciphertext" % (idx, secret[i:i + 6].hex()))
            st["leak_checked"] += 1

    # decode_strict (inside execute) decrypts every message; for long runs that is the cost driver, so
    # structure/priv oracles are left to C03/C11 and only the salt rules run on every message
    info = v3hist.execute(G, cfg, expand(c), set(), on_request=on_request, on_failed_send=on_failed_send)
    info.update(st)
    return info


def run(rep, tier):
    G = drivers.load()
    rep.rule = ("Hypothesis sequences: a generated pattern of 3..48 steps (mixed request types/sizes with marker arcs; agent actions "
                "reply / new boots+time / none / Report / garbage; occasional set_keys) repeated to n sends, n up to 2000 (quick) or "
                "10^5 (thorough), x DES/AES x digests x key types. Non-trivial = sequence of >=3 sends with >=1 interleaved receive or "
                "timeout; distinct by (cfg, pattern, n).")
    rep.assumptions = ["counter wrap-around (2^32 / 2^64 sends) is out of reach: the seed is random and private",
                       "leak scan decrypts the first 64 messages of a sequence and every 37th afterwards"]

    def body(c):
        info = execute(G, c)
        nt = info["sends"] >= 3 and (info["after_unanswered"] > 0 or len(info["kinds"] - {"none"}) > 0)
        rep.case(repr((v3hist.describe(c["cfg"], c["pattern"]), c["n"])), nt,
                 sample={"cfg": c["cfg"].describe(), "n": c["n"], "pattern": [[s[1][0], s[2]] if s[0] == "call" else ["set_keys"] for s in c["pattern"]][:10]},
                 classes=["priv:%s" % c["cfg"].priv, "n>=1000" if c["n"] >= 1000 else ("n>=100" if c["n"] >= 100 else "n<100"),
                          "has_set_keys" if any(s[0] == "set_keys" for s in c["pattern"]) else "one_installation"])
        rep.count("sends_checked", info["sends"])
        rep.count("leak_scans", info["leak_checked"])

    n = 40 if tier == "quick" else 120
    if core.run_hypothesis(rep, gen.case_strategy(lambda u: build_case(u, tier), 4096), body, n,
                           describe=lambda c: dict(v3hist.describe(c["cfg"], c["pattern"]), n=c["n"])):
        return
    # sessions of the real clients that install their keys after discovery: nothing of a privacy session's requests may
    # go out in clear afterwards
    v3hist.discovered_stage(rep, G, "C14", 120 if tier == "quick" else 2500, True, True, ("priv-flag-clear", "privacy-mismatch", "flags"))


def replay(rep, case, body=None):
    if case.get("_stage") == "discovered":
        return v3hist.replay_discovered(rep, case)
    G = drivers.load()
    cfg, steps = v3hist.undescribe(case)
    try:
        execute(G, {"cfg": cfg, "pattern": steps, "n": case.get("n", len(steps))})
    except core.Failure as f:
        rep.violation(f.signature, case, f.message)
