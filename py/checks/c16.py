"""C16 - Decoding an element reads exactly its declared extent.

Engine E2 (proptest, rs/harness/props.rs) + E3 (libFuzzer `decoders` target, same oracle in-target):
  (x, s): x = reference encoding of a random value of every supported type (all BerDecoder impls and SnmpValue) with a
  random legal length form, s = random suffix biased to bytes an over-reading decoder would swallow (digits after REAL,
  0x80.. after OIDs, valid TLVs).  Messages: whole v1/v2c/v3 requests and responses with (a) bytes appended after the
  top-level message, (b) one inner declared length raised past the end of its parent by 1..300.
Oracle (metamorphic): from_ber(x || s) = (s, value(from_ber(x))); (a) and (b) must be rejected.
E1 part (Hypothesis, live DES / AES sessions): a reply whose encrypted payload ends 1..15 octets before the scoped PDU it
declares, after 0..2 earlier exchanges, must be refused (the decoders behind decrypt() are not reachable from E2).
"""
from checks import rsutil
from vlib import agent as ag
from vlib import core, drivers, gen
from vlib import refber as rb

LEVEL = "exploration"


# ---- E1 part: the decoders behind the *decrypted* scoped PDU (reachable only through a privacy session) -------------------
def build_live(u):
    cfg = gen.g_cfg(u, versions=("v3",), need_priv=True)
    cfg.priv = "aes" if u.below(4) else "des"
    return {"cfg": cfg, "vlen": u.range(0, 60), "cut": u.range(1, 15), "warm": u.range(0, 2), "fill": u.u8() | 1}


def describe_live(c):
    return {"_stage": "live", "_cfg": gen.cfg_to_json(c["cfg"]), "cfg": c["cfg"].describe(), "vlen": c["vlen"], "cut": c["cut"], "warm": c["warm"], "fill": c["fill"]}


def execute_live(G, c):
    """A reply whose encrypted payload ends `cut` octets before the scoped PDU it declares does: every nested length is
    consistent with its parent, only the octets are not there.  It must be refused - whatever the cipher's working area
    still holds from earlier messages is not part of the element."""
    cfg = c["cfg"]
    link = ag.NbLink()
    try:
        cl = drivers.NbClient(G, cfg, link)
        oid = "1.3.6.1.2.1.1.5.0"
        name = rb.enc_oid((1, 3, 6, 1, 2, 1, 1, 5, 0))
        for i in range(c["warm"]):
            # earlier traffic leaves octets in the buffers
            cl.send("get", oid)
            req = ag.decode_request(cfg, link.recv_all()[0], strict=False)
            link.send(ag.build_reply(cfg, req, [rb.varbind(name, rb.tlv(rb.T_OCTETS, bytes([c["fill"]]) * (40 + 7 * i)))]))
            cl.recv("get")
        cl.send("get", oid)
        req = ag.decode_request(cfg, link.recv_all()[0], strict=False)
        value = bytes((c["fill"] + k) & 0xFF for k in range(c["vlen"]))
        p = rb.pdu(rb.PDU_RESPONSE, req["request_id"], 0, 0, [rb.varbind(name, rb.tlv(rb.T_OCTETS, value))])
        sc = rb.scoped_pdu(req["engine_id"], b"", p)
        cut = min(c["cut"], len(sc) - 4)
        short = sc[:-cut]
        if cfg.priv == "des":
            short = short[:len(short) // 8 * 8]  # DES-CBC carries whole blocks only
            cut = len(sc) - len(short)
        link.send(ag.build_reply(cfg, req, [], raw_scoped=short, pad_bytes=b""))
        try:
            r = cl.recv("get")
        except (BlockingIOError, G.SnmpError):
            return cut
        raise core.Failure("truncated-element-completed:" + cfg.priv,
                           "%s: the encrypted payload carries %d of the %d octets its scoped PDU declares, yet get() returned %r (sent value %r)"
                           % (cfg.describe(), len(short), len(sc), r, value))
    finally:
        link.close()


def run_live(rep, tier):
    G = drivers.load()

    def body(c):
        cut = execute_live(G, c)
        rep.case(("live", c["cfg"].describe(), c["vlen"], c["cut"], c["warm"]), True,
                 classes=["live:priv:" + c["cfg"].priv, "live:warm:%d" % c["warm"], "live:cut:%s" % ("<8" if cut < 8 else ">=8")])

    return core.run_hypothesis(rep, gen.case_strategy(build_live, 256), body, 600 if tier == "quick" else 20000, describe=describe_live)


def run(rep, tier):
    rep.rule = ("proptest pairs (x, s) over 19 value kinds x 4 length forms x 8 suffix classes, and message attacks (trailing bytes, "
                "nested length overrun). Non-trivial = s non-empty or a nesting attack was applied; distinct by hash of the input bytes.")
    rep.assumptions = ["independent encoder rs/harness/refenc.rs", "only real containers are attacked (OCTET STRING payloads are opaque)"]
    rsutil.run_rs_part(rep, tier, "C16", required=True)
    if not rep.violations:
        run_live(rep, tier)
    if not rep.violations:
        from checks import fuzzutil
        fuzzutil.run_fuzz_part(rep, tier, "C16")


def replay(rep, case, body=None):
    if isinstance(case, dict) and case.get("_stage") == "live":
        G = drivers.load()
        c = {"cfg": gen.cfg_from_json(case["_cfg"]), "vlen": case["vlen"], "cut": case["cut"], "warm": case["warm"], "fill": case["fill"]}
        try:
            execute_live(G, c)
        except core.Failure as f:
            rep.violation(f.signature, case, f.message)
        return
    if isinstance(case, dict) and case.get("engine") == "E3":
        from checks import fuzzutil
        fuzzutil.replay_input(rep, "C16", case)
        return
    rsutil.run_rs_part(rep, case.get("tier", "quick"), "C16", required=True)
