"""C16 - Decoding an element reads exactly its declared extent.

Engine E2 (proptest, rs/harness/props.rs) + E3 (libFuzzer `decoders` target, same oracle in-target):
  (x, s): x = reference encoding of a random value of every supported type (all BerDecoder impls and SnmpValue) with a
  random legal length form, s = random suffix biased to bytes an over-reading decoder would swallow (digits after REAL,
  0x80.. after OIDs, valid TLVs).  Messages: whole v1/v2c/v3 requests and responses with (a) bytes appended after the
  top-level message, (b) one inner declared length raised past the end of its parent by 1..300.
Oracle (metamorphic): from_ber(x || s) = (s, value(from_ber(x))); (a) and (b) must be rejected.
"""
from checks import rsutil

LEVEL = "exploration"


def run(rep, tier):
    rep.rule = ("proptest pairs (x, s) over 19 value kinds x 4 length forms x 8 suffix classes, and message attacks (trailing bytes, "
                "nested length overrun). Non-trivial = s non-empty or a nesting attack was applied; distinct by hash of the input bytes.")
    rep.assumptions = ["independent encoder rs/harness/refenc.rs", "only real containers are attacked (OCTET STRING payloads are opaque)"]
    rsutil.run_rs_part(rep, tier, "C16", required=True)
    if not rep.violations:
        from checks import fuzzutil
        fuzzutil.run_fuzz_part(rep, tier, "C16")


def replay(rep, case, body=None):
    if isinstance(case, dict) and case.get("engine") == "E3":
        from checks import fuzzutil
        fuzzutil.replay_input(rep, "C16", case)
        return
    rsutil.run_rs_part(rep, case.get("tier", "quick"), "C16", required=True)
