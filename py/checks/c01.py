"""C01 - No datagram can crash the client: the receive path is total.

E1 part (this file): Hypothesis structured mutation of valid replies, delivered
to the real sessions through the nb / sync / async drivers.
E3 part (rs/fuzz/recv_path.rs, rs/fuzz/decoders.rs): libFuzzer + ASan campaigns,
run and merged by checks/fuzzutil.py.
Oracle: the call returns or raises a documented exception class; PanicException,
any other class, a walk that does not end, or process death is a violation.
"""
import json
import os
import re

from vlib import agent as ag
from vlib import core, drivers, gen, mutate
from vlib import refber as rb

LEVEL = "exploration"
ISOLATE = True
POOL = {}

SPECIAL_NAMES = [b"\x06\x00", b"\x06\x01\x2b", b"\x06\x02\x2b\x06", b"\x0d\x00", b"\x0d\x01\x01", b"\x0d\x02\x01\x02",
                 b"\x0d\x03\x81\x82\x03", b"\x06\x01\x80", b"\x06\x03\x2b\x80\x80", b"\x0d\x01\x80", b"\x05\x00", b""]


def build_case(u):
    cfg = gen.g_cfg(u)
    ops = ["get", "get_many", "getnext", "getbulk"] if cfg.version != "v1" else ["get", "get_many", "getnext"]
    if cfg.version == "v3":
        ops.append("refresh")
    op = u.choice(ops)
    driver = "nb" if u.below(20) < 18 else u.choice(["sync", "async"])
    base = gen.g_oid(u, 2, 5)
    n = u.below(5)
    names, vals = [], []
    for i in range(n):
        k = u.below(8)
        if k == 0:
            names.append(base)  # the walk root itself
        elif k == 1:
            # a strict prefix of what an earlier (valid) reply of this walk returned: base.(j).5.5 -> base.(j) / base.(j).5
            names.append(base + ((1 + u.below(2),) if u.bool() else (1 + u.below(2), 5)))
        elif k <= 5:
            names.append(base + tuple(gen.g_arc(u) for _ in range(u.range(1, 3))))
        else:
            names.append(gen.g_oid(u, 2, 8))
        vals.append(gen.g_any_value(u))
    mode = u.choice(["outer", "inner", "inner", "scoped", "special", "salt", "random", "valid", "report"])
    c = {"cfg": cfg, "op": op, "driver": driver, "base": base, "mode": mode}
    vbs = [rb.varbind(rb.enc_oid(nm), v.tlv) for nm, v in zip(names, vals)]
    if mode == "special":
        # hand-made hostile varbinds: empty varbind, empty / short / relative names
        k = 1 + u.below(3)
        for _ in range(k):
            nm = u.choice(SPECIAL_NAMES)
            vb = rb.tlv(rb.T_SEQ, nm + (gen.g_any_value(u).tlv if u.below(4) else b""))
            vbs.insert(u.below(len(vbs) + 1), vb)
    c["vbs"] = vbs
    c["kinds"] = [v.kind for v in vals]
    # the mutation program is decided now (so that the case is a pure value); it is applied to bytes at run time
    c["mut_blob"] = u.take(48)
    c["salt_len"] = u.choice([0, 1, 4, 7, 9, 12, 16, 32])
    c["random"] = u.take(u.below(64)) if mode == "random" else b""
    c["nfirst"] = u.below(3)  # how many valid replies precede the hostile one (walks / pooled state)
    c["flagsel"] = u.below(12)  # v3: msgFlags override (None-like for >= 8: flags consistent with the body)
    c["pooled"] = u.bool()
    return c


def describe(c):
    d = dict(c)
    d["cfg"] = c["cfg"].describe()
    d["_cfg"] = gen.cfg_to_json(c["cfg"])
    d["base"] = list(c["base"])
    return d


def v3_flags(c):
    """msgFlags override for the structured v3 modes: any combination of auth / priv / reportable, independent of whether
    msgData is really encrypted (the receive path must cope with inconsistent flags)."""
    k = c.get("flagsel", 99)
    return k if k < 8 else None


def hostile_reply(c, req):
    cfg, mode = c["cfg"], c["mode"]
    vbs = c["vbs"]
    mu = gen.U(c["mut_blob"])
    if mode == "random":
        return c["random"], ["random"]
    if mode in ("valid", "special"):
        return ag.build_reply(cfg, req, vbs), [mode]
    if mode == "report":
        if cfg.version != "v3":
            return ag.build_reply(cfg, req, vbs, pdu_tag=rb.PDU_REPORT), ["report-pdu"]
        return ag.build_report(cfg, req, req["engine_id"] or gen.ENGINE_IDS[0], 3, 99), ["report"]
    if mode == "outer":
        m = ag.build_reply(cfg, req, vbs)
        return mutate.mutate_bytes(mu, m)
    if mode == "inner":
        p = rb.pdu(rb.PDU_RESPONSE, req["request_id"], 0, 0, vbs)
        p2, notes = mutate.mutate_bytes(mu, p)
        return ag.build_reply(cfg, req, vbs, raw_pdu=p2), ["inner:" + x for x in notes]
    if mode == "scoped":
        if cfg.version != "v3":
            m = ag.build_reply(cfg, req, vbs)
            return mutate.mutate_bytes(mu, m)
        p = rb.pdu(rb.PDU_RESPONSE, req["request_id"], 0, 0, vbs)
        sc = rb.scoped_pdu(req["engine_id"], b"", p)
        sc2, notes = mutate.mutate_bytes(mu, sc)
        return ag.build_reply(cfg, req, vbs, raw_scoped=sc2, flags=v3_flags(c)), ["scoped:" + x for x in notes] + ["flags=%s" % v3_flags(c)]
    if mode == "salt":
        if cfg.version != "v3":
            m = ag.build_reply(cfg, req, vbs)
            return mutate.mutate_bytes(mu, m)
        # also for sessions without privacy: an OCTET STRING msgData reaches the decrypt call whatever the flags say
        return (ag.build_reply(cfg, req, vbs, priv_params=b"\xa5" * c["salt_len"], encrypt=True if cfg.priv else None, flags=v3_flags(c)),
                ["salt%d" % c["salt_len"], "flags=%s" % v3_flags(c)])
    raise ValueError(mode)


def panic_signature(e):
    msg = re.sub(r"\d+", "N", str(e))[:80]
    return "panic:" + msg


def execute(G, c):
    cfg, op = c["cfg"], c["op"]
    state = {"n": 0, "notes": None, "sent": None}
    eom = [rb.varbind(rb.enc_oid(c["base"][:1] + (c["base"][1] + 1,)) if c["base"][1] < 39 else rb.enc_oid((2, 39, 1)),
                      rb.tlv(rb.T_ENDOFMIBVIEW, b""))]

    def handler(d):
        try:
            req = ag.decode_request(cfg, d, strict=False)
        except rb.BerError:
            return []
        state["n"] += 1
        if state["n"] <= c["nfirst"] and op in ("getnext", "getbulk"):
            # a valid in-subtree reply first
            nm = c["base"] + (state["n"], 5, 5)  # deeper than the names the hostile reply may carry
            return [ag.build_reply(cfg, req, [rb.varbind(rb.enc_oid(nm), rb.enc_int(state["n"]))])]
        if state["sent"] is None:
            m, notes = hostile_reply(c, req)
            state["sent"], state["notes"] = m, notes
            return [m[:4080]]
        return [ag.build_reply(cfg, req, eom)]

    if op == "get":
        call = ("get", "1.3.6.1.2.1.1.1.0")
    elif op == "get_many":
        call = ("get_many", ["1.3.6.1.2.1.1.1.0", "1.3.6.1.2.1.1.2.0"])
    elif op == "getnext":
        call = ("getnext", rb.oid_text(c["base"]))
    elif op == "getbulk":
        call = ("getbulk", rb.oid_text(c["base"]), 5)
    else:
        call = ("refresh",)
    kw = {}
    if c["driver"] == "nb" and c.get("pooled"):
        # history: the same raw session (and its cipher / iterator-independent state) serves many cases
        key = cfg.describe()
        if key not in POOL:
            ln = ag.NbLink()
            POOL[key] = (ln, drivers.NbClient(G, cfg, ln))
        ln, client = POOL[key]
        ln.recv_all()
        # leftovers of an earlier case must not be mistaken for this case's reply
        while True:
            try:
                client.sock.recv_get()
            except BaseException as e:  # noqa: BLE001
                if isinstance(e, BlockingIOError):
                    break
                if type(e).__name__ == "PanicException":
                    raise core.Failure(panic_signature(e), "Rust panic while draining a pooled session: %s" % e)
        kw = {"link": ln, "client": client}
    out = drivers.run_api(G, c["driver"], cfg, call, handler, timeout=0.12, max_steps=12, max_items=200, **kw)
    info = "%s over %s [%s] mode=%s mutations=%r datagram=%s" % (
        op, cfg.describe(), c["driver"], c["mode"], state["notes"], (state["sent"] or b"").hex())
    if out.kind == "runaway":
        raise core.Failure("walk-does-not-end", info)
    if out.kind == "exc":
        e = out.exc
        if type(e).__name__ == "PanicException":
            raise core.Failure(panic_signature(e), "Rust panic surfaced as PanicException(%s): %s" % (e, info))
        if not drivers.documented_exception(G, e):
            raise core.Failure("undocumented-exception:" + type(e).__name__, "%r: %s" % (e, info))
    return out, state


def run(rep, tier):
    G = drivers.load()
    rep.rule = ("E1: valid replies (0..4 varbinds, any value incl. exception values) x v1/v2c/v3(all security levels) x "
                "get/get_many/getnext/getbulk/refresh x nb/sync/async, hit by 1..3 mutations (truncate, length-octet attacks, long-form "
                "tags, hostile inserts such as empty varbind / empty, short and relative OIDs, tag rewrites, deletions, flips) applied "
                "to the whole datagram, to the PDU before wrapping, to the scoped PDU before encryption, plus wrong salt lengths, "
                "Reports and random bytes; msgFlags varied independently of the body; half of the cases reuse a pooled session; walk replies may carry prefixes of OIDs accepted earlier. Non-trivial = datagram passes the outer SEQUENCE+version check of the session's version; "
                "distinct by (cfg, op, datagram). E3: libFuzzer+ASan campaigns on the real receive path and on the decoders.")
    rep.assumptions = ["loopback UDP delivery is synchronous (nb driver)", "reference codec/crypto build the seed replies"]

    journal = os.environ.get("VERIF_JOURNAL")

    def body(c):
        if journal:
            with open(journal, "w") as fh:
                json.dump({"property": "C01", "signature": "process-death", "case": core.jsonable(describe(c))}, fh)
        out, state = execute(G, c)
        sent = state["sent"] or b""
        nt = False
        try:
            t, s, e = rb.read_tlv(sent, 0, len(sent), strict=False)
            if t == 0x30 and e == len(sent):
                v, _ = rb.read_int(sent, s, e, strict=False)
                nt = v == {"v1": 0, "v2c": 1, "v3": 3}[c["cfg"].version]
        except rb.BerError:
            pass
        outcome = "ok" if out.kind == "ok" else type(out.exc).__name__
        rep.case((c["cfg"].describe(), c["op"], sent), nt,
                 sample={"cfg": c["cfg"].describe(), "op": c["op"], "driver": c["driver"], "mode": c["mode"],
                         "mutations": state["notes"], "datagram": sent.hex()[:200], "outcome": outcome},
                 classes=["mode:" + c["mode"], "op:" + c["op"], "driver:" + c["driver"], "outcome:" + outcome,
                          "passes_version_check" if nt else "rejected_early"])

    n = 3000 if tier == "quick" else 100000
    if core.run_hypothesis(rep, gen.case_strategy(build_case, 1024), body, n, describe=describe):
        return
    from checks import fuzzutil
    fuzzutil.run_fuzz_part(rep, tier, "C01")


def replay(rep, case, body=None):
    if isinstance(case, dict) and case.get("engine") == "E3":
        from checks import fuzzutil
        fuzzutil.replay_input(rep, "C01", case)
        return
    G = drivers.load()
    c = dict(case)
    c["cfg"] = gen.cfg_from_json(case["_cfg"])
    c["base"] = tuple(case["base"])
    try:
        execute(G, c)
    except core.Failure as f:
        rep.violation(f.signature, case, f.message)
