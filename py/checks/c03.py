"""C03 - Requests on the wire are exactly what the caller asked for.

Generator: histories of 1..12 API calls over 1..3 concurrently open sessions of mixed
versions / security configurations in one process (pooled buffers); each call is
followed by an agent action (valid reply of random size up to ~4 KB, reply that moves
boots/time, no reply, garbage).  Both SnmpSession front-ends (incl. fetch()) for a share.
Oracle: every datagram the agent receives is parsed by the strict reference decoder and
must denote exactly the call (wire.check_structure); exactly one datagram per call.
"""
from vlib import agent as ag
from vlib import core, drivers, gen, wire
from vlib import refber as rb

LEVEL = "exploration"
MAXREPS = [1, 2, 10, 20, 127, 128, 255, 256, 32767, 32768, 65535, 65536, 2 ** 31 - 1]


def g_oid_any(u, maxlen):
    """Mostly short OIDs; sometimes one whose BER content needs a long-form length (>= 128 octets)."""
    if u.below(8) == 0:
        n = u.range(30, 128)
        return (u.below(3), u.below(40)) + tuple((gen.g_arc(u) if u.bool() else 2 ** 32 - 1 - u.below(5)) for _ in range(n - 2))
    return gen.g_oid(u, 2, maxlen)


def g_call(u, cfg, highlevel=False):
    ops = ["get", "get_many", "getnext1", "getbulk1"]
    if cfg.version == "v1":
        ops = ["get", "get_many", "getnext1"]
    if cfg.version == "v3" and not highlevel:
        ops.append("refresh")
    if highlevel:
        ops.append("fetch")
    else:
        ops.append("walk")
    op = u.choice(ops)
    if op == "get":
        return ("get", rb.oid_text(g_oid_any(u, 24)))
    if op == "get_many":
        n = u.range(1, 6) if u.below(4) else u.range(1, 60)
        return ("get_many", [rb.oid_text(g_oid_any(u, 14)) for _ in range(n)])
    if op == "getnext1":
        return ("getnext1", rb.oid_text(g_oid_any(u, 16)))
    if op == "getbulk1":
        r = u.choice(MAXREPS) if u.below(3) else 1 + u.below(2 ** 31 - 1)
        return ("getbulk1", rb.oid_text(g_oid_any(u, 16)), r)
    if op == "fetch":
        return ("fetch1", rb.oid_text(gen.g_oid(u, 2, 16)))
    if op == "walk":
        # a whole walk: every follow-up request must ask for exactly the last OID the agent returned
        base = gen.g_oid(u, 2, 6)
        sufs = set()
        for _ in range(u.range(1, 8)):
            sufs.add(tuple(gen.g_arc(u) for _ in range(u.range(1, 4))))
        names = sorted(base + x for x in sufs)
        method = "getnext" if (cfg.version == "v1" or u.bool()) else "getbulk"
        return ("walk", method, rb.oid_text(base), [rb.oid_text(n) for n in names], u.range(1, 4))
    return ("refresh",)


def build_case(u):
    mode = "nb" if u.below(8) < 6 else u.choice(["sync", "async"])
    nsess = u.range(1, 3) if mode == "nb" else 1
    cfgs = [gen.g_cfg(u) for _ in range(nsess)]
    steps = []
    for _ in range(u.range(1, 12)):
        si = u.below(nsess)
        call = g_call(u, cfgs[si], highlevel=(mode != "nb"))
        action = ("reply", "reply", "reply", "reply_time", "none", "garbage", "big_reply", "reply")[u.below(8)]
        if mode != "nb" and action in ("none", "garbage"):
            action = "reply"  # keep the blocking drivers free of timeouts here (C04/C18 cover those)
        steps.append({"s": si, "call": call, "action": action, "p": u.bits(3)})
    kw = {}
    if mode != "nb":
        # every session option is either given or left to its documented default (allow_bulk=True, max_repetitions=20,
        # version: v2c without a user, v3 with one)
        kw = {}
        if u.bool():
            kw["allow_bulk"] = u.bool()
        if u.bool():
            kw["max_repetitions"] = u.choice([1, 5, 20, 100])
        if u.bool():
            kw["_omit_version"] = True
    return {"mode": mode, "cfgs": cfgs, "steps": steps, "kw": kw}


def describe(c):
    return {"mode": c["mode"], "cfgs": [x.describe() for x in c["cfgs"]], "_cfgs": [gen.cfg_to_json(x) for x in c["cfgs"]],
            "steps": c["steps"], "kw": c["kw"]}


def make_reply(cfg, model, req, step, first_oid):
    """Agent action -> (datagrams, accepted?)"""
    action, p = step["action"], step["p"]
    if action == "none":
        return [], False
    if action == "garbage":
        return [bytes([0x30, 0x82, 0x01]) + p.to_bytes(3, "big")], False
    name = rb.enc_oid(first_oid + (1,))
    if action == "big_reply":
        n = 1 + p % 12
        size = min(300, 3600 // n)
        vbs = [rb.varbind(rb.enc_oid(first_oid + (1, i + 1)), rb.tlv(rb.T_OCTETS, bytes([i]) * size)) for i in range(n)]
    else:
        vbs = [rb.varbind(name, rb.enc_int(p))]
    kw = {}
    if cfg.version == "v3":
        if action == "reply_time":
            b, t = [(0, 0), (1, 1), (255, 256), (65535, 65536), (2 ** 31 - 1, 2 ** 31 - 1), (7, 2 ** 24), (128, 127)][p % 7]
        else:
            b, t = model.boots, model.time
        kw = {"boots": b, "time": t}
    if req["pdu_tag"] == rb.PDU_GET and not req["varbinds"]:
        # refresh probe: answered with a Report
        return [ag.build_report(cfg, req, model.engine_id, kw.get("boots", 0), kw.get("time", 0))], (kw.get("boots", 0), kw.get("time", 0))
    return [ag.build_reply(cfg, req, vbs, **kw)], ((kw.get("boots"), kw.get("time")) if cfg.version == "v3" else True)


def expected_for(cfg, call, kw):
    if call[0] == "fetch1":
        if cfg.version != "v1" and kw.get("allow_bulk", True):
            return wire.expected_pdu(("getbulk1", call[1], kw.get("max_repetitions", 20)))
        return wire.expected_pdu(("getnext1", call[1]))
    return wire.expected_pdu(call)


def execute_nb(G, c):
    links = [ag.NbLink() for _ in c["cfgs"]]
    info = {"nt": 0, "long": 0, "requests": 0}
    try:
        clients = [drivers.NbClient(G, cfg, ln) for cfg, ln in zip(c["cfgs"], links)]
        models = [wire.SessionModel(cfg) for cfg in c["cfgs"]]
        sent_before = recv_before = 0
        for step in c["steps"]:
            i = step["s"]
            cfg, cl, ln, model = c["cfgs"][i], clients[i], links[i], models[i]
            call = step["call"]
            op = call[0]
            it = None
            if op == "walk":
                n = run_walk(G, cl, ln, model, cfg, call)
                info["requests"] += n
                info["nt"] += n
                info["walk_followups"] = info.get("walk_followups", 0) + max(0, n - 1)
                sent_before += n
                recv_before += n
                continue
            try:
                if op in ("getnext1", "getbulk1"):
                    it = cl.make_iter(call[1]) if op == "getnext1" else cl.make_iter(call[1], call[2])
                    cl.send(op[:-1], it)
                else:
                    cl.send(op, call[1] if len(call) > 1 else None)
            except (G.SnmpError, ValueError, RuntimeError, OverflowError) as e:
                # a refused request emits nothing; whether it should have been refused is the question of C08 / C17
                if ln.recv_all():
                    raise core.Failure("encode-error-but-sent", "%r raised %r yet a datagram was sent" % (call, e))
                continue
            got = ln.recv_all()
            if len(got) != 1:
                raise core.Failure("datagram-count", "%r over %s emitted %d datagrams" % (call, cfg.describe(), len(got)))
            m = wire.check_structure(model, call, got[0], expected_for(cfg, call, {}))
            info["requests"] += 1
            if wire.distinct_long_form(got[0]):
                info["long"] += 1
            if sent_before and recv_before:
                info["nt"] += 1
            sent_before += 1
            first = m["varbinds"][0][0] if m["varbinds"] else (1, 3, 6, 1)
            outs, accepted = make_reply(cfg, model, m, step, first)
            for o in outs:
                ln.send(o)
            try:
                cl.recv(op[:-1] if op.endswith("1") else op, it)
                recv_before += 1
            except (BlockingIOError, G.SnmpError, StopAsyncIteration):
                if step["action"] != "none":
                    recv_before += 1
            if accepted and cfg.version == "v3":
                model.accept(model.engine_id, accepted[0], accepted[1])
    finally:
        for ln in links:
            ln.close()
    return info


def fit_for_highlevel(cfg, st):
    """The blocking drivers pair the k-th datagram with the k-th call, so every call must emit one: requests that
    may not fit the buffer (C17's domain) are trimmed here."""
    from checks.c17 import ref_request_size
    call = st["call"]
    if call[0] != "get_many":
        return st
    oids = list(call[1])
    while len(oids) > 1 and ref_request_size(cfg, [rb.parse_oid_text(o) for o in oids], 4)[0] > 3900:
        oids = oids[:len(oids) // 2]
    if ref_request_size(cfg, [rb.parse_oid_text(o) for o in oids], 4)[0] > 3900:
        oids = ["1.3.6.1.2.1.1.1.0"]
    st = dict(st)
    st["call"] = ("get_many", oids)
    return st


def run_walk(G, cl, ln, model, cfg, call):
    """One complete GetNext/GetBulk walk against scripted replies; returns the number of requests checked."""
    _, method, base, names, chunk = call
    it = cl.make_iter(base) if method == "getnext" else cl.make_iter(base, chunk)
    current = base
    pos = 0
    nreq = 0
    k = 1 if method == "getnext" else chunk
    while True:
        try:
            cl.send(method, it)
        except (G.SnmpError, ValueError, RuntimeError, OverflowError) as e:
            if ln.recv_all():
                raise core.Failure("encode-error-but-sent", "walk step raised %r yet a datagram was sent" % (e,))
            return nreq
        got = ln.recv_all()
        if len(got) != 1:
            raise core.Failure("datagram-count", "walk step emitted %d datagrams" % len(got))
        exp = ("getnext1", current) if method == "getnext" else ("getbulk1", current, chunk)
        m = wire.check_structure(model, ("walk-step",) + exp, got[0], wire.expected_pdu(exp))
        nreq += 1
        part = names[pos:pos + k]
        pos += len(part)
        if part:
            vbs = [rb.varbind(rb.enc_oid(rb.parse_oid_text(nm)), rb.enc_int(i)) for i, nm in enumerate(part)]
        else:
            vbs = [rb.varbind(rb.enc_oid(rb.parse_oid_text(current)), rb.tlv(rb.T_ENDOFMIBVIEW, b""))]
        kw = {"boots": model.boots, "time": model.time} if cfg.version == "v3" else {}
        ln.send(ag.build_reply(cfg, m, vbs, **kw))
        try:
            cl.recv(method, it)
        except StopAsyncIteration:
            return nreq
        except (G.SnmpError, BlockingIOError, ValueError, RuntimeError):
            return nreq  # the walk ends here; what a walk delivers is the question of C05 / C06, the requests so far were checked
        if not part:
            raise core.Failure("walk-did-not-stop", "walk continued after endOfMibView")
        current = part[-1]
        if nreq > len(names) + 2:
            raise core.Failure("walk-did-not-stop", "more requests than entries")


NOT_OURS = ("engine-id-not-learned", "get-engine-id-raised", "lost-probe-outcome", "refresh-failed", "no-discovery-probe", "message-count")


def execute_highlevel(G, c):
    cfg = c["cfgs"][0]
    c = dict(c)
    c["steps"] = [fit_for_highlevel(cfg, st) for st in c["steps"]]
    model = wire.SessionModel(cfg)
    calls = [st["call"] for st in c["steps"]]
    idx = {"k": 0}
    problems = []
    info = {"nt": 0, "long": 0, "requests": 0}

    def handler(d):
        k = idx["k"]
        idx["k"] += 1
        if k >= len(c["steps"]):
            problems.append(core.Failure("datagram-count", "more datagrams than calls"))
            return []
        step = c["steps"][k]
        try:
            m = wire.check_structure(model, step["call"], d, expected_for(cfg, step["call"], c["kw"]))
        except core.Failure as f:
            problems.append(f)
            return []
        info["requests"] += 1
        if wire.distinct_long_form(d):
            info["long"] += 1
        if k:
            info["nt"] += 1
        first = m["varbinds"][0][0] if m["varbinds"] else (1, 3, 6, 1)
        outs, accepted = make_reply(cfg, model, m, step, first)
        if accepted and cfg.version == "v3":
            model.accept(model.engine_id, accepted[0], accepted[1])
        return outs

    outs = drivers.run_calls(G, c["mode"], cfg, calls, handler, timeout=5.0, session_kw=c["kw"])
    if problems:
        raise problems[0]
    sent = idx["k"]
    ncalls = sum(1 for o in outs if not (o.kind == "exc" and isinstance(o.exc, G.SnmpEncodeError)))
    if sent != ncalls:
        raise core.Failure("datagram-count", "%d calls emitted %d datagrams (%r)" % (ncalls, sent, outs))
    return info


def run(rep, tier):
    G = drivers.load()
    rep.rule = ("Hypothesis histories: 1..12 calls (get / get_many 1..60 oids / getnext / getbulk r in 1..2^31-1 / fetch / refresh) over "
                "1..3 sessions of mixed version+security in one process, each followed by an agent action (reply, big reply, reply that "
                "moves boots/time, none, garbage); 25% through the real sync/async SnmpSession incl. fetch(allow_bulk, max_repetitions). "
                "Non-trivial = a request emitted after >=1 earlier send and >=1 earlier receive of the same history (pooled buffers) or "
                "using a long-form length; distinct by (cfgs, steps).  Second stage: v3 sessions of the real clients that discover their "
                "engine id (incl. first probe lost, refresh() retried), every later request checked for the session's user / flags / engine id / MAC.")
    rep.assumptions = ["strict reference decoder refber.parse_message", "reference crypto refusm.py"]

    def body(c):
        info = execute_nb(G, c) if c["mode"] == "nb" else execute_highlevel(G, c)
        rep.case(repr(describe(c)), info["nt"] > 0 or info["long"] > 0,
                 sample={"mode": c["mode"], "cfgs": [x.describe() for x in c["cfgs"]], "steps": [[s["s"], s["call"][0], s["action"]] for s in c["steps"]]},
                 classes=["mode:" + c["mode"], "nsess:%d" % len(c["cfgs"])] + ["ver:" + x.version for x in c["cfgs"]]
                 + ["call:" + s["call"][0] for s in c["steps"]] + (["has_long_form"] if info["long"] else []))
        rep.count("requests_checked", info["requests"])
        rep.count("walk_followup_requests_checked", info.get("walk_followups", 0))

    n = 2000 if tier == "quick" else 50000
    if core.run_hypothesis(rep, gen.case_strategy(build_case, 4096), body, n, describe=describe):
        return
    # Sessions that learn their engine id by discovery (real sync / async clients, also with the first probe lost and
    # refresh() retried): every request after discovery must carry the session's user, security flags, engine id and a
    # valid MAC / decryptable payload.  Generator and wire oracle are those of C13; a failure here is a request that does
    # not carry the session's credentials, which is this property's statement.
    from checks import c13

    def body2(c):
        try:
            nmsg, _ = c13.execute_confirmed(G, c, rep)
        except core.Failure as f:
            if f.signature in NOT_OURS:
                # what a session reports about itself / whether discovery completes is C13's statement, not this one
                rep.count("discovered_session_failures_left_to_C13")
                return
            else:
                raise core.Failure("discovered-session:" + f.signature, f.message)
        rep.case("disc:" + repr(c13.describe(c)), c["discovered"] and len(c["reqs"]) >= 1,
                 classes=["mode:discovered-session", "driver:" + c["driver"]] + (["lost_first_probe"] if c.get("lost_probe") else []))
        rep.count("requests_checked", nmsg)

    def describe2(c):
        d = c13.describe(c)
        d["_stage"] = "discovered"
        return d

    core.run_hypothesis(rep, gen.case_strategy(c13.build_case, 1024), body2, 200 if tier == "quick" else 4000, describe=describe2)


def replay(rep, case, body=None):
    if case.get("_stage") == "discovered":
        from checks import c13
        return c13.replay(rep, case)
    G = drivers.load()
    c = {"mode": case["mode"], "cfgs": [gen.cfg_from_json(x) for x in case["_cfgs"]], "kw": case["kw"],
         "steps": [{"s": s["s"], "call": tuple(s["call"]), "action": s["action"], "p": s["p"]} for s in case["steps"]]}
    for st in c["steps"]:
        if st["call"][0] == "walk":
            st["call"] = (st["call"][0], st["call"][1], st["call"][2], list(st["call"][3]), st["call"][4])
    try:
        execute_nb(G, c) if c["mode"] == "nb" else execute_highlevel(G, c)
    except core.Failure as f:
        rep.violation(f.signature, case, f.message)
