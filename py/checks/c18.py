"""C18 - A request never outlives its timeout.

Generator: arrival schedules the harness owns: timeout T in {0.15, 0.25, 0.4} s; k in 0..8 well-formed non-matching
datagrams (wrong request-id / community / msgID) at offsets with gaps < T spread over (0, 2T); optionally the matching
reply before (0.2T..0.7T) or after (1.3T..2T) the deadline; x {sync, async} x {v1, v2c, v3}.  Schedules run in parallel
worker processes (one schedule per process at a time).
Oracle: a matching reply that arrives before T is delivered; otherwise TimeoutError after at most T + slack
(slack = max(0.12 s, 0.5 T)).  This is the one property whose oracle reads the wall clock: an overrun is re-run twice
more in isolation and reported only if all three runs overrun; disagreement is recorded as scheduling noise.
"""
import multiprocessing as mp
import os
import sys
import time

from vlib import core, gen

LEVEL = "fault_enumeration"
TS = [0.15, 0.25, 0.4]


def build_schedule(u):
    T = u.choice(TS)
    ver = u.choice(["v1", "v2c", "v3"])
    driver = u.choice(["sync", "sync", "async"])
    k = u.below(9)
    strays = []
    t = 0.0
    for _ in range(k):
        t += (0.25 + 0.55 * u.below(100) / 100.0) * T
        if t > 2.2 * T:
            break
        strays.append(round(t, 4))
    reply = u.choice(["none", "none", "early", "late"])
    if reply == "early":
        rt = (0.2 + 0.5 * u.below(100) / 100.0) * T
    elif reply == "late":
        rt = (1.3 + 0.7 * u.below(100) / 100.0) * T
    else:
        rt = None
    kind = u.choice(["reqid", "reqid", "community_or_msgid"])
    return {"T": T, "ver": ver, "driver": driver, "strays": strays, "reply": reply, "reply_at": None if rt is None else round(rt, 4), "stray_kind": kind}


def run_schedule(args):
    """Executed in a worker process.  Returns dict(outcome, elapsed, value)."""
    sched, pkg = args
    here = os.path.dirname(os.path.dirname(os.path.abspath(__file__)))
    if here not in sys.path:
        sys.path.insert(0, here)
    os.environ["VERIF_PKG_DIR"] = pkg
    import threading
    from vlib import agent as ag
    from vlib import drivers
    from vlib import refber as rb
    G = drivers.load()
    T = sched["T"]
    cfg = {"v1": ag.Cfg("v1"), "v2c": ag.Cfg("v2c"),
           "v3": ag.Cfg("v3", engine_id=gen.ENGINE_IDS[0], auth="sha1", auth_kt="localized")}[sched["ver"]]
    vb = [rb.varbind(rb.enc_oid((1, 3, 6, 1, 2, 1, 1, 3, 0)), rb.enc_int(4242))]
    events = sorted([(t, "stray") for t in sched["strays"]] + ([(sched["reply_at"], "reply")] if sched["reply_at"] is not None else []))

    def emit(req, kind):
        if kind == "reply":
            return ag.build_reply(cfg, req, vb)
        if sched["stray_kind"] == "reqid" or cfg.version == "v3" and False:
            return ag.build_reply(cfg, req, vb, request_id=(req["request_id"] ^ 0x1234) & 0x7FFFFFFF)
        if cfg.version == "v3":
            return ag.build_reply(cfg, req, vb, msg_id=(req["msg_id"] ^ 0x55) & 0x7FFFFFFF)
        return ag.build_reply(cfg, req, vb, community=b"other")

    if sched["driver"] == "sync":
        import socket as so
        sock = so.socket(so.AF_INET, so.SOCK_DGRAM)
        sock.bind(("127.0.0.1", 0))
        sock.settimeout(5)
        port = sock.getsockname()[1]

        def agent():
            try:
                d, a = sock.recvfrom(65535)
            except OSError:
                return
            t0 = time.monotonic()
            req = ag.decode_request(cfg, d, strict=False)
            for t, kind in events:
                dt = t - (time.monotonic() - t0)
                if dt > 0:
                    time.sleep(dt)
                try:
                    sock.sendto(emit(req, kind), a)
                except OSError:
                    return  # the call under test is over and the socket closed

        th = threading.Thread(target=agent, daemon=True)
        th.start()
        s = drivers.sync_session(G, cfg, port, timeout=T)
        t0 = time.monotonic()
        try:
            v = s.get("1.3.6.1.2.1.1.3.0")
            out = ("ok", v)
        except TimeoutError:
            out = ("timeout", None)
        except BaseException as e:  # noqa: BLE001
            out = ("exc", repr(e))
        el = time.monotonic() - t0
        sock.close()
        return {"outcome": out[0], "value": out[1], "elapsed": el}
    import asyncio

    async def main():
        loop = asyncio.get_running_loop()
        st = {}

        class Proto(asyncio.DatagramProtocol):
            def connection_made(self, tr):
                self.tr = tr

            def datagram_received(self, data, addr):
                req = ag.decode_request(cfg, data, strict=False)
                for t, kind in events:
                    loop.call_later(t, self.tr.sendto, emit(req, kind), addr)

        tr, _ = await loop.create_datagram_endpoint(Proto, local_addr=("127.0.0.1", 0))
        port = tr.get_extra_info("sockname")[1]
        s = drivers.async_session(G, cfg, port, timeout=T)
        t0 = time.monotonic()
        try:
            v = await s.get("1.3.6.1.2.1.1.3.0")
            out = ("ok", v)
        except TimeoutError:
            out = ("timeout", None)
        except BaseException as e:  # noqa: BLE001
            if isinstance(e, (asyncio.CancelledError, KeyboardInterrupt)):
                raise
            out = ("exc", repr(e))
        st["el"] = time.monotonic() - t0
        tr.close()
        return out, st["el"]

    out, el = asyncio.run(main())
    return {"outcome": out[0], "value": out[1], "elapsed": el}


def judge(sched, r):
    """None if fine, else (signature, message, is_timing)."""
    T = sched["T"]
    slack = max(0.12, 0.5 * T)
    desc = "%s/%s T=%.2fs strays at %r, reply %s%s -> %s after %.3fs" % (
        sched["driver"], sched["ver"], T, sched["strays"], sched["reply"],
        "" if sched["reply_at"] is None else " at %.3f" % sched["reply_at"], r["outcome"], r["elapsed"])
    if r["outcome"] == "exc":
        return ("unexpected-exception", desc + " " + str(r["value"]), False)
    if sched["reply"] == "early":
        if r["outcome"] != "ok" or r["value"] != 4242:
            # the reply was sent at <= 0.7T: only severe scheduling noise could make it miss the deadline
            return ("timely-reply-not-delivered", desc, True)
        return None
    if r["outcome"] == "ok":
        # a reply scheduled after the deadline may legitimately be delivered only if the call was still waiting: that is the overrun
        return ("late-reply-delivered:driver=%s" % sched["driver"], desc + " (the call was still waiting at %.3fs, deadline %.2fs)" % (sched["reply_at"] or 0, T), True)
    if r["elapsed"] > T + slack:
        tracks = bool(sched["strays"]) and abs(r["elapsed"] - (max(sched["strays"]) + T)) < 0.15
        return ("timeout-overrun:driver=%s:%s" % (sched["driver"], "tracks-strays" if tracks else "other"),
                desc + " (bound %.3fs)" % (T + slack), True)
    if r["elapsed"] < T - 0.05:
        return ("timeout-too-early", desc, True)
    return None


def run(rep, tier):
    from vlib import build
    pkg = build.ensure_ext()
    rep.rule = ("Hypothesis-generated batch of arrival schedules (T in {0.15,0.25,0.4}s; 0..8 non-matching datagrams with gaps 0.25T..0.8T; "
                "matching reply none / early (0.2T..0.7T) / late (1.3T..2T)) x sync/async x v1/v2c/v3, run in 16 worker processes. "
                "Non-trivial = schedule with >=2 strays and no timely matching reply; distinct by schedule.")
    rep.assumptions = ["wall-clock oracle with slack max(0.12s, 0.5T); an overrun must reproduce in two isolated re-runs to be reported",
                       "loopback latency is negligible against the 150..400 ms timeouts"]
    n = 48 if tier == "quick" else 600
    import hypothesis
    from hypothesis import HealthCheck, Phase, given, settings
    from hypothesis import strategies as st
    batch = {"s": []}

    # generation and execution are separated: Hypothesis draws the schedules (seeded, no shrinking - every run costs
    # seconds of wall clock), then the whole batch is executed in parallel worker processes
    @hypothesis.seed(rep.seed)
    @settings(max_examples=n, database=None, deadline=None, suppress_health_check=list(HealthCheck), phases=[Phase.generate])
    @given(st.binary(min_size=40, max_size=40))
    def draw(blob):
        batch["s"].append(build_schedule(gen.U(blob)))

    draw()
    scheds = batch["s"]
    # make sure the interesting class is well represented: prepend a few canonical schedules
    canon = []
    for T in TS:
        for drv in ("sync", "async"):
            canon.append({"T": T, "ver": "v2c", "driver": drv, "strays": [round(0.6 * T * (i + 1), 4) for i in range(3)], "reply": "none",
                          "reply_at": None, "stray_kind": "reqid"})
    scheds = canon + scheds
    ctx = mp.get_context("spawn")
    with ctx.Pool(16) as pool:
        results = pool.map(run_schedule, [(s, pkg) for s in scheds], chunksize=1)
    noise = 0
    for s, r in zip(scheds, results):
        j = judge(s, r)
        nt = len(s["strays"]) >= 2 and s["reply"] != "early"
        if j is not None:
            sig, msg, timing = j
            if timing:
                # confirm in isolation, twice
                with ctx.Pool(1) as pool:
                    again = [pool.apply(run_schedule, ((s, pkg),)) for _ in range(2)]
                js = [judge(s, a) for a in again]
                if all(x is not None for x in js):
                    rep.violation(sig, {"schedule": s, "runs": [r] + again}, msg + "; reproduced in 2 isolated re-runs: %s" % [round(a["elapsed"], 3) for a in again])
                    if len(rep.violations) >= 3:
                        break
                    continue
                noise += 1
            else:
                rep.violation(sig, {"schedule": s, "runs": [r]}, msg)
                continue
        rep.case(repr(s), nt, sample={"schedule": s, "outcome": r["outcome"], "elapsed_s": round(r["elapsed"], 3)},
                 classes=["driver:" + s["driver"], "ver:" + s["ver"], "reply:" + s["reply"], "strays:%d" % min(len(s["strays"]), 4), "outcome:" + r["outcome"]])
    rep.extra["scheduling_noise_events"] = noise


def replay(rep, case, body=None):
    from vlib import build
    pkg = build.ensure_ext()
    s = case["schedule"]
    ctx = mp.get_context("spawn")
    with ctx.Pool(1) as pool:
        runs = [pool.apply(run_schedule, ((s, pkg),)) for _ in range(3)]
    js = [judge(s, r) for r in runs]
    if all(j is not None for j in js):
        rep.violation(js[0][0], case, js[0][1])
