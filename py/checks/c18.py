"""C18 - A request never outlives its timeout.

Generator: arrival schedules the harness owns: timeout T in {0.15, 0.25, 0.4} s; k in 0..8 well-formed non-matching
datagrams (wrong request-id / community / msgID) at offsets with gaps < T spread over (0, 2T); optionally the matching
reply before (0.2T..0.7T) or after (1.3T..2T) the deadline; x {sync, async} x {v1, v2c, v3, v3d = v3 session that
has to discover its engine id: first call refresh(), strays = Reports of a foreign engine for another msgID}.  Schedules run in parallel
worker processes (one schedule per process at a time).
Oracle: a matching reply that arrives before T is delivered; otherwise TimeoutError after at most T + slack
(slack = max(0.12 s, 0.5 T)).  This is the one property whose oracle reads the wall clock: a suspected violation is re-run twice
in isolation on a copy of the schedule with all times tripled and reported only if both re-runs fail as well; disagreement is recorded as scheduling noise.
"""
import multiprocessing as mp
import os
import sys
import time

from vlib import core, gen

LEVEL = "fault_enumeration"
TS = [0.15, 0.25, 0.4]


def build_call(u, T):
    k = u.below(9)
    strays = []
    t = 0.0
    for _ in range(k):
        t += (0.25 + 0.55 * u.below(100) / 100.0) * T
        if t > 2.2 * T:
            break
        strays.append(round(t, 4))
    reply = u.choice(["none", "none", "early", "late"])
    if reply == "early":
        rt = (0.2 + 0.5 * u.below(100) / 100.0) * T
    elif reply == "late":
        rt = (1.3 + 0.7 * u.below(100) / 100.0) * T
    else:
        rt = None
    # every blocking entry point shares the deadline logic but has its own timeout mapping in the Python layer
    op = ("get", "get", "get", "get_many", "getnext", "getbulk", "refresh", "fetch")[u.below(8)]
    call = {"strays": strays, "reply": reply, "reply_at": None if rt is None else round(rt, 4), "op": op}
    if reply != "early" and u.below(4) == 0:
        # non-matching datagrams in the last 0.1 .. 1.5 ms before the deadline, given as distances from the deadline (they
        # keep their distance when a schedule is scaled): the wait is re-armed with almost nothing left
        k0 = u.below(4)
        call["edge"] = [round(0.0001 * k, 4) for k in range(1 + k0, 16, 1 + u.below(3))]
    return call


def build_schedule(u):
    """1..3 consecutive calls on ONE session (state left by an earlier call - e.g. a shortened socket timeout - must not
    affect the next one)."""
    T = u.choice(TS)
    # "v3d": a v3 session created WITHOUT an engine id - its first call is the refresh() that runs engine-id discovery
    ver = u.choice(["v1", "v2c", "v3", "v3d"])
    driver = u.choice(["sync", "sync", "async"])
    kind = u.choice(["reqid", "reqid", "community_or_msgid"])
    if ver == "v3" and u.below(3) == 0:
        kind = "report_stale"
    calls = [build_call(u, T) for _ in range(u.range(1, 3))]
    if ver == "v3d":
        kind = u.choice(["foreign_engine", "foreign_engine", "reqid", "community_or_msgid", "report_stale"])
        calls = discovery_first(calls)
    return {"T": T, "ver": ver, "driver": driver, "calls": calls, "stray_kind": kind}


def discovery_first(calls):
    """Shape a schedule for a session that has to discover its engine id: the first call is refresh(); datagrams scheduled
    after its matching Report are dropped (the library sends its second, time-synchronising probe right after the Report and
    the scripted agent answers that one at once); nothing follows a discovery that is scheduled to fail."""
    c0 = dict(calls[0], op="refresh")
    if c0["reply"] == "early":
        c0["strays"] = [t for t in c0["strays"] if t < c0["reply_at"]]
        return [c0] + calls[1:]
    return [c0]


def run_schedule(args):
    """Executed in a worker process.  Returns dict(outcome, elapsed, value)."""
    sched, pkg = args
    here = os.path.dirname(os.path.dirname(os.path.abspath(__file__)))
    if here not in sys.path:
        sys.path.insert(0, here)
    os.environ["VERIF_PKG_DIR"] = pkg
    import threading
    from vlib import agent as ag
    from vlib import drivers
    from vlib import refber as rb
    G = drivers.load()
    T = sched["T"]
    disc = sched["ver"] == "v3d"
    cfg = {"v1": ag.Cfg("v1"), "v2c": ag.Cfg("v2c"),
           "v3": ag.Cfg("v3", engine_id=gen.ENGINE_IDS[0], auth="sha1", auth_kt="localized"),
           # replies are built for the agent's engine id; the session itself is created with none (see skw)
           "v3d": ag.Cfg("v3", engine_id=gen.ENGINE_IDS[0], auth="sha1", auth_kt="password")}[sched["ver"]]
    skw = {"engine_id": b""} if disc else {}
    foreign = bytes(gen.ENGINE_IDS[0][:-1]) + bytes([gen.ENGINE_IDS[0][-1] ^ 0x5A])

    def followup(req):
        """The second probe of a discovering refresh() (engine id already learned): answered at once, not a scheduled call."""
        if disc and st["await_followup"] and req.get("pdu_tag") == rb.PDU_GET and not req.get("varbinds") and bool(req.get("engine_id")):
            st["await_followup"] = False
            return True
        return False

    st = {"await_followup": False}
    vb = [rb.varbind(rb.enc_oid((1, 3, 6, 1, 2, 1, 1, 3, 0)), rb.enc_int(4242))]

    def sync_call(s, op):
        if cfg.version == "v1" and op in ("getbulk",):
            op = "getnext"
        if op == "refresh" and cfg.version != "v3":
            op = "get"
        if op == "refresh":
            s.refresh()
            return 4242
        if op == "get":
            return s.get("1.3.6.1.2.1.1.3.0")
        if op == "get_many":
            return list(s.get_many(["1.3.6.1.2.1.1.3.0"]).values())[0]
        it = {"getnext": lambda: s.getnext("1.3.6.1.2.1.1"), "getbulk": lambda: s.getbulk("1.3.6.1.2.1.1", 3), "fetch": lambda: s.fetch("1.3.6.1.2.1.1")}[op]()
        return next(iter(it))[1]

    async def async_call(s, op):
        if cfg.version == "v1" and op in ("getbulk",):
            op = "getnext"
        if op == "refresh" and cfg.version != "v3":
            op = "get"
        if op == "refresh":
            await s.refresh()
            return 4242
        if op == "get":
            return await s.get("1.3.6.1.2.1.1.3.0")
        if op == "get_many":
            return list((await s.get_many(["1.3.6.1.2.1.1.3.0"])).values())[0]
        it = {"getnext": lambda: s.getnext("1.3.6.1.2.1.1"), "getbulk": lambda: s.getbulk("1.3.6.1.2.1.1", 3), "fetch": lambda: s.fetch("1.3.6.1.2.1.1")}[op]()
        return (await it.__anext__())[1]

    def events_of(call):
        return sorted([(t, "stray") for t in call["strays"]] + [(T - d, "stray") for d in call.get("edge", [])] + ([(call["reply_at"], "reply")] if call["reply_at"] is not None else []))

    def emit(req, kind):
        probe = req["pdu_tag"] == rb.PDU_GET and not req["varbinds"]
        if probe:
            # refresh(): answered by a Report; a stray is a Report for another msgID
            if kind == "reply":
                if disc and not req.get("engine_id"):
                    st["await_followup"] = True
                return ag.build_report(cfg, req, cfg.engine_id, 5, 1000)
            if sched["stray_kind"] == "foreign_engine":
                # a Report of some other engine for some other message: skipped, and nothing may be learned from it
                return ag.build_report(cfg, req, foreign, 6, 999, msg_id=(req["msg_id"] ^ 0x55) & 0x7FFFFFFF)
            return ag.build_report(cfg, req, cfg.engine_id, 5, 1000, msg_id=(req["msg_id"] ^ 0x55) & 0x7FFFFFFF)
        if kind == "reply":
            return ag.build_reply(cfg, req, vb)
        if sched["stray_kind"] == "report_stale":
            # a Report of this agent for this user whose msgID is not the pending request's (a late network duplicate)
            return ag.build_report(cfg, req, cfg.engine_id, req["boots"], req["time"], user=cfg.user.encode(), msg_id=(req["msg_id"] ^ 0x55) & 0x7FFFFFFF)
        if sched["stray_kind"] == "reqid":
            return ag.build_reply(cfg, req, vb, request_id=(req["request_id"] ^ 0x1234) & 0x7FFFFFFF)
        if cfg.version == "v3":
            return ag.build_reply(cfg, req, vb, msg_id=(req["msg_id"] ^ 0x55) & 0x7FFFFFFF)
        return ag.build_reply(cfg, req, vb, community=b"other")

    results = []
    if sched["driver"] == "sync":
        import socket as so
        sock = so.socket(so.AF_INET, so.SOCK_DGRAM)
        sock.bind(("127.0.0.1", 0))
        sock.settimeout(8)
        port = sock.getsockname()[1]
        done = threading.Event()

        def agent():
            pending = list(sched["calls"])
            while True:
                try:
                    d, a = sock.recvfrom(65535)
                except OSError:
                    return
                t0 = time.monotonic()
                req = ag.decode_request(cfg, d, strict=False)
                if followup(req):
                    try:
                        sock.sendto(ag.build_report(cfg, req, cfg.engine_id, 5, 1000), a)
                    except OSError:
                        return
                    continue
                if not pending:
                    continue
                call = pending.pop(0)
                for t, kind in events_of(call):
                    dt = t - (time.monotonic() - t0)
                    if dt > 0:
                        time.sleep(dt)
                    try:
                        sock.sendto(emit(req, kind), a)
                    except OSError:
                        return
                # do not start serving the next request before this call's late datagrams are out
                done.wait(0.01)

        th = threading.Thread(target=agent, daemon=True)
        th.start()
        s = drivers.sync_session(G, cfg, port, timeout=T, **skw)
        for call in sched["calls"]:
            t0 = time.monotonic()
            try:
                v = sync_call(s, call.get("op", "get"))
                out = ("ok", v)
            except TimeoutError:
                out = ("timeout", None)
            except BaseException as e:  # noqa: BLE001
                out = ("exc", repr(e))
            el = time.monotonic() - t0
            results.append({"outcome": out[0], "value": out[1], "elapsed": el})
            # let every datagram of this call's schedule arrive and be discarded by the *harness* before the next call:
            # stale datagrams of an earlier request are C04's subject, not this property's
            last = max([t for t, _ in events_of(call)] + [0.0])
            rest = last - el + 0.05
            if rest > 0:
                time.sleep(rest)
            drain(s)
        sock.close()
        return results
    import asyncio

    async def main():
        loop = asyncio.get_running_loop()
        state = {"i": 0}

        class Proto(asyncio.DatagramProtocol):
            def connection_made(self, tr):
                self.tr = tr

            def datagram_received(self, data, addr):
                call = sched["calls"][min(state["i"], len(sched["calls"]) - 1)]
                req = ag.decode_request(cfg, data, strict=False)
                if followup(req):
                    self.tr.sendto(ag.build_report(cfg, req, cfg.engine_id, 5, 1000), addr)
                    return
                for t, kind in events_of(call):
                    loop.call_later(t, self.tr.sendto, emit(req, kind), addr)

        tr, _ = await loop.create_datagram_endpoint(Proto, local_addr=("127.0.0.1", 0))
        port = tr.get_extra_info("sockname")[1]
        s = drivers.async_session(G, cfg, port, timeout=T, **skw)
        for i, call in enumerate(sched["calls"]):
            state["i"] = i
            t0 = time.monotonic()
            try:
                v = await async_call(s, call.get("op", "get"))
                out = ("ok", v)
            except TimeoutError:
                out = ("timeout", None)
            except BaseException as e:  # noqa: BLE001
                if isinstance(e, (asyncio.CancelledError, KeyboardInterrupt)):
                    raise
                out = ("exc", repr(e))
            el = time.monotonic() - t0
            results.append({"outcome": out[0], "value": out[1], "elapsed": el})
            last = max([t for t, _ in events_of(call)] + [0.0])
            rest = last - el + 0.05
            if rest > 0:
                await asyncio.sleep(rest)
            drain(s)
        tr.close()
        return results

    return asyncio.run(main())


def drain(session):
    """Throw away datagrams still queued on the client's socket (reads the fd directly, outside the library)."""
    import socket as so
    try:
        dup = so.socket(fileno=os.dup(session._fd))
    except Exception:  # noqa: BLE001
        return
    try:
        dup.setblocking(False)
        while True:
            try:
                dup.recv(65535)
            except (BlockingIOError, OSError):
                break
    finally:
        # restore blocking mode of the shared open file description for the sync client (timeout is SO_RCVTIMEO based)
        if ".sync_client." in type(session).__module__:
            dup.setblocking(True)
        dup.close()


def judge_call(sched, i, r):
    """None if fine, else (signature, message, is_timing)."""
    T = sched["T"]
    call = sched["calls"][i]
    slack = max(0.12, 0.5 * T)
    desc = "%s/%s T=%.2fs call %d of %d: strays at %r, reply %s%s -> %s after %.3fs" % (
        sched["driver"] + ":" + call.get("op", "get"), sched["ver"], T, i + 1, len(sched["calls"]), call["strays"], call["reply"],
        "" if call["reply_at"] is None else " at %.3f" % call["reply_at"], r["outcome"], r["elapsed"])
    if call.get("edge"):
        desc += " [plus non-matching datagrams %s ms before the deadline]" % ", ".join("%.1f" % (d * 1000) for d in call["edge"])
    if i:
        desc += " (earlier calls on this session: %r)" % ([(c["strays"], c["reply"]) for c in sched["calls"][:i]],)
    if r["outcome"] == "exc":
        return ("unexpected-exception", desc + " " + str(r["value"]), False)
    if call["reply"] == "early":
        if r["outcome"] != "ok" or r["value"] != 4242:
            return ("timely-reply-not-delivered:driver=%s" % sched["driver"], desc, True)
        return None
    if r["outcome"] == "ok":
        return ("late-reply-delivered:driver=%s" % sched["driver"], desc + " (the call was still waiting at %.3fs, deadline %.2fs)" % (call["reply_at"] or 0, T), True)
    if r["elapsed"] > T + slack:
        tracks = bool(call["strays"]) and abs(r["elapsed"] - (max(call["strays"]) + T)) < 0.15
        return ("timeout-overrun:driver=%s:%s" % (sched["driver"], "tracks-strays" if tracks else "other"), desc + " (bound %.3fs)" % (T + slack), True)
    if r["elapsed"] < T - 0.05:
        return ("timeout-too-early:driver=%s" % sched["driver"], desc, True)
    return None


def scaled(sched, k):
    """The same schedule with every time multiplied by k: a real defect reproduces at any scale, scheduling noise does not."""
    s2 = dict(sched)
    s2["T"] = sched["T"] * k
    s2["calls"] = [dict(c, strays=[round(t * k, 4) for t in c["strays"]], reply_at=None if c["reply_at"] is None else round(c["reply_at"] * k, 4))
                   for c in sched["calls"]]
    return s2


def judge(sched, results):
    for i, r in enumerate(results):
        j = judge_call(sched, i, r)
        if j is not None:
            return j
    return None


def run(rep, tier):
    from vlib import build
    pkg = build.ensure_ext()
    rep.rule = ("Hypothesis-generated batch of arrival schedules (T in {0.15,0.25,0.4}s; 0..8 non-matching datagrams with gaps 0.25T..0.8T; "
                "optionally a run of non-matching datagrams 0.1..1.5 ms before the deadline; matching reply none / early (0.2T..0.7T) / late (1.3T..2T)) x sync/async x v1/v2c/v3/v3 with engine-id discovery (first call = refresh() on a session without engine id; strays there are Reports of a foreign engine for another msgID; v3 strays are also stale Reports of the agent itself with another msgID), run in 16 worker processes. "
                "Each schedule is 1..3 consecutive calls on one session. Non-trivial = a call with >=2 strays and no timely matching reply, or a multi-call schedule; distinct by schedule.")
    rep.assumptions = ["wall-clock oracle with slack max(0.12s, 0.5T); an overrun must reproduce in two isolated re-runs to be reported",
                       "loopback latency is negligible against the 150..400 ms timeouts"]
    n = 48 if tier == "quick" else 600
    import hypothesis
    from hypothesis import HealthCheck, Phase, given, settings
    from hypothesis import strategies as st
    batch = {"s": []}

    # generation and execution are separated: Hypothesis draws the schedules (seeded, no shrinking - every run costs
    # seconds of wall clock), then the whole batch is executed in parallel worker processes
    @hypothesis.seed(rep.seed)
    @settings(max_examples=n, database=None, deadline=None, suppress_health_check=list(HealthCheck), phases=[Phase.generate])
    @given(st.binary(min_size=40, max_size=40))
    def draw(blob):
        batch["s"].append(build_schedule(gen.U(blob)))

    draw()
    scheds = batch["s"]
    # make sure the interesting class is well represented: prepend a few canonical schedules
    canon = []
    for T in TS:
        for drv in ("sync", "async"):
            canon.append({"T": T, "ver": "v2c", "driver": drv, "stray_kind": "reqid",
                          "calls": [{"strays": [round(0.6 * T * (i + 1), 4) for i in range(3)], "reply": "none", "reply_at": None}]})
            # state left by a call that skipped a datagram and then timed out must not shorten the next call
            canon.append({"T": T, "ver": "v2c", "driver": drv, "stray_kind": "reqid",
                          "calls": [{"strays": [round(0.7 * T, 4)], "reply": "none", "reply_at": None},
                                    {"strays": [], "reply": "early", "reply_at": round(0.6 * T, 4)}]})
            # ... and neither must a call that skipped a datagram and then *succeeded*
            canon.append({"T": T, "ver": "v2c", "driver": drv, "stray_kind": "reqid",
                          "calls": [{"strays": [round(0.55 * T, 4)], "reply": "early", "reply_at": round(0.68 * T, 4), "op": "get"},
                                    {"strays": [], "reply": "early", "reply_at": round(0.7 * T, 4), "op": "get"},
                                    {"strays": [round(0.6 * T, 4)], "reply": "early", "reply_at": round(0.7 * T, 4), "op": "get_many"},
                                    {"strays": [], "reply": "early", "reply_at": round(0.7 * T, 4), "op": "getnext"}]})
            # engine-id discovery with a foreign engine's Report for another message ahead of the genuine one, then a request
            canon.append({"T": T, "ver": "v3d", "driver": drv, "stray_kind": "foreign_engine",
                          "calls": [{"strays": [round(0.3 * T, 4)], "reply": "early", "reply_at": round(0.6 * T, 4), "op": "refresh"},
                                    {"strays": [round(0.3 * T, 4)], "reply": "early", "reply_at": round(0.6 * T, 4), "op": "get"}]})
            canon.append({"T": T, "ver": "v3d", "driver": drv, "stray_kind": "foreign_engine",
                          "calls": [{"strays": [round(0.4 * T, 4), round(0.9 * T, 4), round(1.4 * T, 4)], "reply": "none", "reply_at": None, "op": "refresh"}]})
            # a run of non-matching datagrams 1.2 .. 0.1 ms before the deadline, then the matching reply far too late
            canon.append({"T": T, "ver": "v2c", "driver": drv, "stray_kind": "reqid",
                          "calls": [{"strays": [round(0.5 * T, 4)], "edge": [round(0.0001 * k, 4) for k in range(12, 0, -1)],
                                     "reply": "late", "reply_at": round(1.6 * T, 4), "op": "get"},
                                    {"strays": [], "reply": "early", "reply_at": round(0.5 * T, 4), "op": "get"}]})
    scheds = canon + scheds
    ctx = mp.get_context("spawn")
    import concurrent.futures as cf
    # ProcessPoolExecutor (unlike Pool.map) notices a worker that died; a hung worker is bounded by the timeout below
    results = []
    ex = cf.ProcessPoolExecutor(16, mp_context=ctx)

    def abandon():
        # workers stuck inside a call that never returns would make shutdown() wait for ever
        for p in list(getattr(ex, "_processes", {}).values()):
            try:
                p.kill()
            except Exception:  # noqa: BLE001
                pass
        ex.shutdown(wait=False, cancel_futures=True)

    try:
        futs = [ex.submit(run_schedule, (s, pkg)) for s in scheds]
        for s, f in zip(scheds, futs):
            results.append(f.result(timeout=120))
        ex.shutdown(wait=True)
    except cf.process.BrokenProcessPool:
        abandon()
        raise core.Inconclusive("a schedule worker process died; C01 judges crashes, this check only timing")
    except cf.TimeoutError:
        abandon()
        rep.violation("call-never-returned", {"schedule": scheds[len(results)]}, "a call did not return within 120 s (timeout %.2fs): %r" % (scheds[len(results)]["T"], scheds[len(results)]))
        sys.stdout.flush()
        os._exit(1 if rep.finish() else 1)
    noise = 0
    for s, r in zip(scheds, results):
        j = judge(s, r)
        nt = any(len(c_["strays"]) >= 2 and c_["reply"] != "early" for c_ in s["calls"]) or len(s["calls"]) >= 2
        if j is not None:
            sig, msg, timing = j
            if timing:
                # confirm in isolation, twice
                big = scaled(s, 3)
                with ctx.Pool(1) as pool:
                    again = [pool.apply(run_schedule, ((big, pkg),)) for _ in range(2)]
                js = [judge(big, a) for a in again]
                if all(x is not None for x in js):
                    rep.violation(sig, {"schedule": s, "runs": [r] + again}, msg + "; reproduced in 2 isolated re-runs: %s" % [[round(x["elapsed"], 3) for x in a] for a in again])
                    if len(rep.violations) >= 3:
                        break
                    continue
                noise += 1
            else:
                rep.violation(sig, {"schedule": s, "runs": [r]}, msg)
                continue
        rep.case(repr(s), nt, sample={"schedule": s, "outcomes": [x["outcome"] for x in r], "elapsed_s": [round(x["elapsed"], 3) for x in r]},
                 classes=["driver:" + s["driver"], "ver:" + s["ver"], "calls:%d" % len(s["calls"])] + ["reply:" + c_["reply"] for c_ in s["calls"]]
                 + ["op:" + c_.get("op", "get") for c_ in s["calls"]]
                 + ["strays:%d" % min(len(c_["strays"]), 4) for c_ in s["calls"]] + ["deadline-edge-strays" for c_ in s["calls"] if c_.get("edge")] + ["outcome:" + x["outcome"] for x in r])
    rep.extra["scheduling_noise_events"] = noise


def replay(rep, case, body=None):
    from vlib import build
    pkg = build.ensure_ext()
    s = case["schedule"]
    ctx = mp.get_context("spawn")
    big = scaled(s, 3)
    with ctx.Pool(1) as pool:
        runs = [pool.apply(run_schedule, ((big, pkg),)) for _ in range(3)]
    js = [judge(big, r) for r in runs]
    if all(j is not None for j in js):
        rep.violation(js[0][0], case, js[0][1])
