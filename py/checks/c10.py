"""C10 - Unauthenticated or forged v3 replies are never accepted.

Generator / enumeration: otherwise-matching replies (right user, engine id, msgID, request-id) x MAC in {valid, all-zero,
random, one bit flipped, field absent/empty (with either flag), wrong length (6 zero octets; 1/4/11/13/24-octet prefixes of a
correctly computed HMAC)} x flags in {auth, noAuth} (with and without the reportable / reserved msgFlags bits) x {priv as configured, sent in clear although
privacy is configured} x body in {GetResponse, Report} x {MD5, SHA-1} x {none, DES, AES} x op in {get, get_many, getnext,
getbulk}; each forged reply is *followed by* the genuine one.  The class grid is enumerated completely; random payloads,
key types, users and engine ids vary around it.
Oracle: with an auth key configured a GetResponse is delivered only if the auth flag is set and the MAC verifies (and, with
privacy configured, the body was encrypted); every other GetResponse must be skipped, so the genuine reply that follows is
the one delivered; Reports may be accepted unauthenticated.  The positive control (valid MAC is delivered) is asserted too.
"""
import itertools

from vlib import agent as ag
from vlib import core, drivers, gen
from vlib import refber as rb

LEVEL = "fault_enumeration"
MACS = ["valid", "zero", "random", "bitflip", "absent", "short", "empty", "trunc1", "trunc4", "trunc11", "trunc13", "trunc24"]
OPS = ["get", "get_many", "getnext1", "getbulk1"]
CALLS = {"get": ("get", "1.3.6.1.2.1.1.3.0"), "get_many": ("get_many", ["1.3.6.1.2.1.1.3.0", "1.3.6.1.2.1.1.5.0"]),
         "getnext1": ("getnext1", "1.3.6.1.2.1.2"), "getbulk1": ("getbulk1", "1.3.6.1.2.1.2", 4)}


def forged_reply(cfg, req, cl, value):
    """cl = (mac, authflag, clear, body[, extra msgFlags bits])"""
    mac, authflag, clear, body = cl[:4]
    extra = cl[4] if len(cl) > 4 else 0
    name = (req["varbinds"][0][0] if req["varbinds"] else (1, 3)) + (1,)
    vbs = [rb.varbind(rb.enc_oid(name), rb.enc_int(value))]
    kw = {"mac": mac}
    if mac == "empty":
        kw = {"auth_params": b""}  # field empty, auth flag as chosen
    elif mac.startswith("trunc"):
        kw = {"mac": ("trunc", int(mac[5:]))}
    enc = bool(cfg.priv) and not clear
    kw["encrypt"] = enc
    flags = (1 if authflag else 0) | (2 if enc else 0) | extra
    kw["flags"] = flags
    if body == "report":
        kw["pdu_tag"] = rb.PDU_REPORT
    return ag.build_reply(cfg, req, vbs, **kw)


def acceptable(cfg, cl):
    """May this otherwise-matching message be delivered?  (the property's acceptance rule)"""
    mac, authflag, clear, body = cl[:4]
    authenticated = authflag and mac == "valid"
    if body == "report":
        return True  # "Only Report PDUs may be accepted without authentication": accepting or skipping are both allowed
    if not authenticated:
        return False
    if cfg.priv and clear:
        return False
    return True


def expected_result(op, name, val):
    txt = rb.oid_text(name)
    return {"get": val, "get_many": {txt: val}, "getnext1": (txt, val), "getbulk1": [(txt, val)]}[op]


def genuine_exchange(cfg, cl_, link, k):
    """One ordinary authenticated (and encrypted) get on the session: acceptance of later replies must not depend on it."""
    cl_.send("get", "1.3.6.1.2.1.1.3.0")
    got = link.recv_all()
    req = ag.decode_request(cfg, got[0], strict=False)
    link.send(ag.build_reply(cfg, req, [rb.varbind(rb.enc_oid((1, 3, 6, 1, 2, 1, 1, 3, 0)), rb.enc_int(77 + k))]))
    if cl_.recv("get") != 77 + k:
        raise core.Failure("genuine-exchange-failed", "plain authenticated get failed on %s" % cfg.describe())


def make_client(G, cfg, link, payload):
    """Every other case builds the session the way the clients do after discovery: created without keys, then set_keys()."""
    if (payload // 3) % 2 == 0:
        return drivers.NbClient(G, cfg, link)
    tmp = ag.Cfg("v3", user="", engine_id=cfg.engine_id)
    c = drivers.NbClient(G, tmp, link)
    c.sock.set_keys(*cfg.raw_args(cfg.engine_id))
    c.cfg = cfg
    return c


def execute(G, cfg, op, cl, payload, link):
    cl_ = make_client(G, cfg, link, payload)
    link.recv_all()
    # history: 0..2 genuine exchanges first (a verdict cached from an earlier authentic reply must not leak to the forgery)
    for k in range(payload % 3):
        genuine_exchange(cfg, cl_, link, k)
    call = CALLS[op]
    it = None
    if op in ("getnext1", "getbulk1"):
        it = cl_.make_iter(call[1]) if op == "getnext1" else cl_.make_iter(call[1], call[2])
        cl_.send(op[:-1], it)
    else:
        cl_.send(op, call[1])
    got = link.recv_all()
    if len(got) != 1:
        raise core.Failure("datagram-count", "%d datagrams" % len(got))
    req = ag.decode_request(cfg, got[0], strict=False)
    name = req["varbinds"][0][0] + (1,)
    forged_val, genuine_val = 6660000 + payload, 1110000 + payload
    link.send(forged_reply(cfg, req, cl, forged_val))
    link.send(forged_reply(cfg, req, ("valid", True, False, "response", 0), genuine_val))
    recv_op = op[:-1] if op.endswith("1") else op
    try:
        out = ("ok", cl_.recv(recv_op, it))
    except BaseException as e:  # noqa: BLE001
        out = ("exc", e)
    ok_forged = acceptable(cfg, cl)
    extra = cl[4] if len(cl) > 4 else 0
    info = "%s over %s; forged reply class mac=%s authflag=%s clear=%s body=%s extra msgFlags=%#x -> %r" % (op, cfg.describe(), cl[0], cl[1], cl[2], cl[3], extra, out)
    sig_cls = "mac=%s,flag=%s%s,%s,%s" % (cl[0], "auth" if cl[1] else "noauth", "+%#x" % extra if extra else "", "clear" if (cl[2] and cfg.priv) else "asconfigured", cl[3])
    if ok_forged:
        # first datagram is legitimate: it must be the one acted upon
        if cl[3] == "report":
            if not (out[0] == "exc" and isinstance(out[1], G.SnmpAuthError)):
                # a Report is allowed to be accepted, not required: the genuine reply may be delivered instead
                if not (out[0] == "ok" and out[1] == expected_result(op, name, genuine_val)):
                    raise core.Failure("report-handling:" + sig_cls, info)
        else:
            delivered = out[0] == "ok" and out[1] == expected_result(op, name, forged_val)
            # an authentic reply that additionally carries the reportable / reserved msgFlags bits may be ignored by a
            # strict implementation: then the genuine reply that follows must be the one delivered
            tolerated = extra and out[0] == "ok" and out[1] == expected_result(op, name, genuine_val)
            if not (delivered or tolerated):
                raise core.Failure("authentic-reply-not-delivered:" + sig_cls, info)
        return "accepted"
    # forged: must be skipped; the genuine reply is delivered
    if out[0] == "ok" and out[1] == expected_result(op, name, forged_val):
        raise core.Failure("forged-reply-accepted:" + sig_cls, info)
    if not (out[0] == "ok" and out[1] == expected_result(op, name, genuine_val)):
        raise core.Failure("genuine-reply-lost-after-forgery:" + sig_cls, info)
    return "skipped"


def grid():
    for auth in ("md5", "sha1"):
        for priv in (None, "des", "aes"):
            for mac in MACS:
                for authflag in (True, False):
                    for clear in ((False, True) if priv else (False,)):
                        for body in ("response", "report"):
                            if mac == "absent" and authflag:
                                continue  # build_reply cannot flag auth without the field; covered by 'short'/'zero'
                            # the reportable bit (0x04) and a reserved bit must not change the verdict
                            for extra in (0, 4, 0x0C):
                                for op in OPS:
                                    if extra and op not in ("get", "getbulk1"):
                                        continue
                                    yield auth, priv, (mac, authflag, clear, body, extra), op


def build_case(u):
    cfg = gen.g_cfg(u, versions=("v3",), need_auth=True)
    n = u.range(5, 32)
    cfg.engine_id = b"\x80" + u.take(n - 1)
    mac = u.choice(MACS)
    authflag = u.bool(3, 4) if mac != "absent" else False
    clear = bool(cfg.priv) and u.bool(1, 3)
    body = "response" if u.below(4) else "report"
    extra = (0, 0, 4, 8, 0x0C, 0x80, 0xF8, 0x04)[u.below(8)]
    return {"cfg": cfg, "op": u.choice(OPS), "cl": (mac, authflag, clear, body, extra), "payload": u.below(10000)}


def run(rep, tier):
    G = drivers.load()
    link = ag.NbLink()
    rep.rule = ("Complete enumeration of the class grid {MD5,SHA-1} x {none,DES,AES} x MAC{valid,zero,random,bitflip,absent,short} x "
                "flag{auth,noAuth} x {as configured, clear although priv} x {GetResponse,Report} x {get,get_many,getnext,getbulk}, 4 "
                "payloads each (0..2 genuine exchanges first; every other session built without keys and re-keyed with set_keys), every forged reply followed by the genuine one; plus Hypothesis variation of users, engine ids, key "
                "types and payloads. Non-trivial = any variant other than the valid control; distinct by (digest, cipher, class, op).")
    rep.assumptions = ["forged replies are otherwise matching (user, engine id, msgID, request-id taken from the wire)"]
    try:
        total = 0
        for auth, priv, cl, op in grid():
            cfg = ag.Cfg("v3", user="user", engine_id=gen.ENGINE_IDS[total % len(gen.ENGINE_IDS)], auth=auth, priv=priv,
                         auth_kt="localized", priv_kt="localized")
            for payload in (1, 2, 3, 4):
                try:
                    res = execute(G, cfg, op, cl, payload, link)
                except core.Failure as f:
                    rep.violation(f.signature, {"_cfg": gen.cfg_to_json(cfg), "op": op, "cl": list(cl), "payload": payload}, f.message)
                    if len(rep.violations) >= 8:
                        return
                    break
                total += 1
                rep.case((auth, priv, cl, op), tuple(cl[:4]) != ("valid", True, False, "response"),
                         sample={"auth": auth, "priv": priv, "class": list(cl), "op": op, "outcome": res},
                         classes=["grid", "mac:" + cl[0], "body:" + cl[3], "outcome:" + res, "priv:%s" % priv])
        if rep.violations:
            return
        rep.exhaustive = True
        rep.extra["grid_cases"] = total

        def body(c):
            res = execute(G, c["cfg"], c["op"], tuple(c["cl"]), c["payload"], link)
            rep.case((c["cfg"].describe(), c["op"], tuple(c["cl"]), c["payload"]), tuple(c["cl"][:4]) != ("valid", True, False, "response"),
                     classes=["random", "mac:" + c["cl"][0], "outcome:" + res, "kt:" + c["cfg"].auth_kt])

        n = 1500 if tier == "quick" else 50000
        found = core.run_hypothesis(rep, gen.case_strategy(build_case, 256), body, n,
                                    describe=lambda c: {"_cfg": gen.cfg_to_json(c["cfg"]), "op": c["op"], "cl": list(c["cl"]), "payload": c["payload"]})
        rep.exhaustive = None
        if not found:
            # sessions of the real clients that get their keys after discovery (also after a failed first attempt): replies
            # that must be rejected are rejected, and the session keeps asking at its security level - one that falls
            # back to noAuthNoPriv takes unauthenticated replies from anybody
            from checks import v3hist
            v3hist.discovered_stage(rep, G, "C10", 120 if tier == "quick" else 2500, True, False,
                                    ("rejected-reply-delivered", "foreign-engine-reply-delivered", "flags", "auth-flag-clear", "user-name"))
    finally:
        link.close()


def replay(rep, case, body=None):
    if case.get("_stage") == "discovered":
        from checks import v3hist
        return v3hist.replay_discovered(rep, case)
    G = drivers.load()
    link = ag.NbLink()
    try:
        execute(G, gen.cfg_from_json(case["_cfg"]), case["op"], tuple(case["cl"]), case["payload"], link)
    except core.Failure as f:
        rep.violation(f.signature, case, f.message)
    finally:
        link.close()
