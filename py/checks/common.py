"""Pieces shared by several checks."""


def policer_integration(rep):
    return
