"""Pieces shared by several checks."""
from vlib import agent as ag
from vlib import core, drivers
from vlib import refber as rb


def policer_integration(rep):
    """C19, session side: every request of a rate-limited session consults the policer exactly once, before the
    datagram is sent (sync: wait_sync(), async: wait()); buffered GetBulk items do not."""
    try:
        G = drivers.load()
    except Exception as e:  # noqa: BLE001 - the policer itself needs no extension; this part is optional
        rep.parts["session_integration"] = {"status": "unavailable", "reason": repr(e)[:200]}
        return
    from gufo.snmp.policer import BasePolicer

    for driver in ("sync", "async"):
        for ver in ("v1", "v2c", "v3"):
            log = []

            class Rec(BasePolicer):
                def get_timeout(self, ts):
                    log.append("policer")
                    return None

            cfg = {"v1": ag.Cfg("v1"), "v2c": ag.Cfg("v2c"), "v3": ag.Cfg("v3", engine_id=b"\x80\x00\x00\x00\x05")}[ver]
            names = [(1, 3, 6, 1, 2, 1, 2, i) for i in range(1, 8)]

            def handler(d):
                log.append("request")
                req = ag.decode_request(cfg, d, strict=False)
                oid = req["varbinds"][0][0] if req["varbinds"] else None
                if req["pdu_tag"] == rb.PDU_GET:
                    return [ag.build_reply(cfg, req, [rb.varbind(rb.enc_oid(v[0]), rb.enc_int(1)) for v in req["varbinds"]])]
                succ = [n for n in names if n > oid]
                if not succ:
                    return [ag.build_reply(cfg, req, [rb.varbind(rb.enc_oid(oid), rb.tlv(rb.T_ENDOFMIBVIEW, b""))])]
                k = 1 if req["pdu_tag"] == rb.PDU_GETNEXT else 3
                return [ag.build_reply(cfg, req, [rb.varbind(rb.enc_oid(n), rb.enc_int(2)) for n in succ[:k]])]

            calls = [("get", "1.3.6.1.2.1.1.1.0"), ("get_many", ["1.3.6.1.2.1.1.1.0", "1.3.6.1.2.1.1.2.0"]), ("getnext", "1.3.6.1.2.1.2")]
            if ver != "v1":
                calls += [("getbulk", "1.3.6.1.2.1.2", 3), ("fetch", "1.3.6.1.2.1.2")]
            outs = drivers.run_calls(G, driver, cfg, calls, handler, timeout=5.0, session_kw={"policer": Rec()})
            if any(o.kind != "ok" for o in outs):
                raise core.Failure("rate-limited-session-failed", "%s/%s with a policer: %r" % (driver, ver, outs))
            nreq = log.count("request")
            want = ["policer", "request"] * nreq
            if log != want:
                raise core.Failure("policer-not-consulted-once-per-request:" + driver,
                                   "%s/%s: event order %r (every request must be preceded by exactly one policer consultation)" % (driver, ver, log[:40]))
            rep.case(("policer-session", driver, ver), True, sample={"driver": driver, "version": ver, "requests": nreq},
                     classes=["session_integration:" + driver])
    # constructor plumbing: limit_rps builds an RPS policer, invalid rates are refused
    for bad in (0, -1):
        try:
            G.sync.SnmpSession("127.0.0.1", port=1, limit_rps=bad)
        except ValueError:
            continue
        except Exception as e:  # noqa: BLE001
            raise core.Failure("limit-rps-wrong-exception", "limit_rps=%r raised %r" % (bad, e))
        # limit_rps=0 means "no limit" in the constructor (falsy) - that is documented behaviour ("Optional"), accept
        if bad != 0:
            raise core.Failure("limit-rps-accepts-invalid", "limit_rps=%r accepted" % (bad,))
    rep.parts["session_integration"] = {"status": "ran"}
