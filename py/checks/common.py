"""Pieces shared by several checks."""
from vlib import agent as ag
from vlib import core, drivers
from vlib import refber as rb


def policer_integration(rep):
    """C19, session side: every request of a rate-limited session consults the policer exactly once, before the
    datagram is sent (sync: wait_sync(), async: wait()); buffered GetBulk items do not."""
    try:
        G = drivers.load()
    except Exception as e:  # noqa: BLE001 - the policer itself needs no extension; this part is optional
        rep.parts["session_integration"] = {"status": "unavailable", "reason": repr(e)[:200]}
        return
    from gufo.snmp.policer import BasePolicer

    for driver in ("sync", "async"):
        for ver in ("v1", "v2c", "v3"):
            log = []

            class Rec(BasePolicer):
                def get_timeout(self, ts):
                    log.append("policer")
                    return None

            cfg = {"v1": ag.Cfg("v1"), "v2c": ag.Cfg("v2c"), "v3": ag.Cfg("v3", engine_id=b"\x80\x00\x00\x00\x05")}[ver]
            names = [(1, 3, 6, 1, 2, 1, 2, i) for i in range(1, 8)]

            def handler(d):
                log.append("request")
                req = ag.decode_request(cfg, d, strict=False)
                oid = req["varbinds"][0][0] if req["varbinds"] else None
                if req["pdu_tag"] == rb.PDU_GET:
                    return [ag.build_reply(cfg, req, [rb.varbind(rb.enc_oid(v[0]), rb.enc_int(1)) for v in req["varbinds"]])]
                succ = [n for n in names if n > oid]
                if not succ:
                    return [ag.build_reply(cfg, req, [rb.varbind(rb.enc_oid(oid), rb.tlv(rb.T_ENDOFMIBVIEW, b""))])]
                k = 1 if req["pdu_tag"] == rb.PDU_GETNEXT else 3
                return [ag.build_reply(cfg, req, [rb.varbind(rb.enc_oid(n), rb.enc_int(2)) for n in succ[:k]])]

            calls = [("get", "1.3.6.1.2.1.1.1.0"), ("get_many", ["1.3.6.1.2.1.1.1.0", "1.3.6.1.2.1.1.2.0"]), ("getnext", "1.3.6.1.2.1.2")]
            if ver != "v1":
                calls += [("getbulk", "1.3.6.1.2.1.2", 3), ("fetch", "1.3.6.1.2.1.2")]
            outs = drivers.run_calls(G, driver, cfg, calls, handler, timeout=5.0, session_kw={"policer": Rec()})
            if any(o.kind != "ok" for o in outs):
                raise core.Failure("rate-limited-session-failed", "%s/%s with a policer: %r" % (driver, ver, outs))
            nreq = log.count("request")
            want = ["policer", "request"] * nreq
            if log != want:
                raise core.Failure("policer-not-consulted-once-per-request:" + driver,
                                   "%s/%s: event order %r (every request must be preceded by exactly one policer consultation)" % (driver, ver, log[:40]))
            rep.case(("policer-session", driver, ver), True, sample={"driver": driver, "version": ver, "requests": nreq},
                     classes=["session_integration:" + driver])
    # limit_rps=R must really limit: k+1 consecutive requests of such a session span more than (k-1)/R seconds.  The clock
    # is read before the first call and after the last one returned, so scheduling noise can only lengthen the measured
    # span - a session that ignores limit_rps finishes these calls in a few milliseconds.
    import time as _time
    for driver, R, NREQ, TMO in (("sync", 25, 6, 5.0), ("async", 25, 6, 5.0), ("sync", 8, 4, 0.06), ("async", 8, 4, 0.06)):
        # (last two: the interval 1/R is longer than the session timeout - waiting for the slot is not waiting for a reply)
        cfg = ag.Cfg("v2c")

        def handler2(d):
            req = ag.decode_request(cfg, d, strict=False)
            return [ag.build_reply(cfg, req, [rb.varbind(rb.enc_oid(v[0]), rb.enc_int(1)) for v in req["varbinds"]])]

        t0 = _time.monotonic()
        outs = drivers.run_calls(G, driver, cfg, [("get", "1.3.6.1.2.1.1.1.0")] * NREQ, handler2, timeout=TMO, session_kw={"limit_rps": R})
        dt = _time.monotonic() - t0
        if any(o.kind != "ok" for o in outs):
            raise core.Failure("rate-limited-session-failed", "%s session with limit_rps=%d: %r" % (driver, R, outs))
        if dt <= (NREQ - 2) / R:
            raise core.Failure("limit-rps-not-applied:" + driver, "%s session with limit_rps=%d sent %d requests within %.4f s; they must span more than %.3f s"
                               % (driver, R, NREQ, dt, (NREQ - 2) / R))
        rep.case(("limit-rps-session", driver, R), True, sample={"driver": driver, "limit_rps": R, "requests": NREQ, "span_s": round(dt, 3)},
                 classes=["session_limit_rps:" + driver])
    # constructor plumbing: limit_rps builds an RPS policer, invalid rates are refused
    for bad in (0, -1):
        try:
            G.sync.SnmpSession("127.0.0.1", port=1, limit_rps=bad)
        except ValueError:
            continue
        except Exception as e:  # noqa: BLE001
            raise core.Failure("limit-rps-wrong-exception", "limit_rps=%r raised %r" % (bad, e))
        # limit_rps=0 means "no limit" in the constructor (falsy) - that is documented behaviour ("Optional"), accept
        if bad != 0:
            raise core.Failure("limit-rps-accepts-invalid", "limit_rps=%r accepted" % (bad,))
    rep.parts["session_integration"] = {"status": "ran"}
