"""C06 - A walk never leaves its subtree, never goes backwards, always ends.

Generator: hostile agents = a reply script (0..8 replies, each 0..6 (OID, value) pairs over a universe of OIDs
{below the base, the base itself, inside at two depths, byte-prefix look-alikes (arc 1 vs 129 ...), above} x values
{INTEGER, OCTET STRING, NULL, noSuchObject, noSuchInstance, endOfMibView}) followed by a tail strategy in
{endOfMibView forever, empty reply forever, repeat the last in-subtree OID forever, cycle through earlier in-subtree
OIDs forever}; getnext and getbulk.  Thorough adds a bounded-exhaustive enumeration over a small universe.
Oracle: executable specification of the walk (see `spec`) + invariants: yielded OIDs are proper descendants of the base and
strictly increasing; follow-up requests ask for the last accepted OID; termination is decided by step count (the walk
must finish within len(script) + 3 requests), never by time.  Where the statement allows alternatives (a GetNext reply
with several varbinds; a non-increasing or repeated OID) both "stop" and "raise SnmpError" are accepted, "yield it" is not.
"""
import itertools

from vlib import agent as ag
from vlib import core, drivers, gen
from vlib import refber as rb

LEVEL = "exploration"
EOM = rb.tlv(rb.T_ENDOFMIBVIEW, b"")
VALS = {"int": lambda k: (rb.enc_int(k), k), "str": lambda k: (rb.tlv(rb.T_OCTETS, b"v%d" % k), b"v%d" % k),
        "null": lambda k: (rb.tlv(rb.T_NULL, b""), None), "nso": lambda k: (rb.tlv(rb.T_NOSUCHOBJECT, b""), None),
        "nsi": lambda k: (rb.tlv(rb.T_NOSUCHINSTANCE, b""), None), "eom": lambda k: (EOM, None)}
DATA = ("int", "str")


def universe(base):
    """OIDs around `base` (an arc tuple with >= 3 arcs)."""
    b = base
    last = b[-1]
    u = {
        "below": b[:-1] + (last - 1, 5) if last > 0 else b[:-1],
        "parent": b[:-1],
        "base": b,
        "in1": b + (1,),
        "in2": b + (1, 1),
        "in3": b + (1, 2),
        "in4": b + (2,),
        "in5": b + (127,),
        "in6": b + (128,),
        "in7": b + (16383,),
        "in8": b + (16384, 0),
        "in9": b + (2 ** 32 - 1,),
        # arcs whose encodings share a leading octet but differ in length (255 = 81 7f, 16384 = 81 80 00; 129 = 81 01)
        "in10": b + (129,),
        "in11": b + (255,),
        "in12": b + (256,),
        "in13": b + (16384,),
        "in14": b + (16385, 1),
        "in15": b + (2 ** 21,),
        "look1": b[:-1] + (last + 128,) if last + 128 < 2 ** 32 else b[:-1] + (last + 1,),
        "look2": b[:-1] + (last * 128 + 1,) if 0 < last * 128 + 1 < 2 ** 32 else b[:-1] + (last + 2,),
        "above": b[:-1] + (last + 1,),
        "above2": b[:-1] + (last + 1, 1),
    }
    return u


UKEYS = ["below", "parent", "base", "in1", "in2", "in3", "in4", "in5", "in6", "in7", "in8", "in9", "in10", "in11", "in12", "in13", "in14",
         "in15", "look1", "look2", "above", "above2"]
INCREASING = ["in1", "in2", "in3", "in4", "in5", "in6", "in10", "in11", "in12", "in7", "in13", "in8", "in14", "in15", "in9"]
TAILS = ["eom", "empty", "repeat", "cycle"]


def build_case(u):
    cfg = gen.g_cfg(u)
    base = gen.g_oid(u, 3, 6)
    if base[-1] >= 2 ** 32 - 200:
        base = base[:-1] + (7,)
    method = "getnext" if (cfg.version == "v1" or u.bool()) else "getbulk"
    nrep = u.below(9)
    script = []
    bias_inc = u.bool(2, 3)  # mostly increasing in-subtree prefixes so that the interesting event comes late
    inside = INCREASING
    pos = u.below(8) if u.bool() else 0
    for _ in range(nrep):
        nvb = (1 if u.below(8) else u.below(4)) if method == "getnext" else u.below(7)
        rep_ = []
        for _ in range(nvb):
            if bias_inc and u.below(4) and pos < len(inside):
                k = inside[pos]
                # a random increasing subsequence (neighbours of very different encoded width end up adjacent)
                pos += (1 + (u.below(4) if u.below(3) == 0 else 0)) if u.below(6) else 0
            else:
                k = u.choice(UKEYS)
            v = u.choice(DATA) if u.below(4) else u.choice(list(VALS))
            rep_.append((k, v))
        script.append(rep_)
    driver = ("nb", "nb", "nb", "nb", "nb", "nb", "sync", "async")[u.below(8)]
    # one OID of the script may be sent in a non-minimal encoding: a sub-identifier prefixed with 0x80 octets (same value,
    # other octets).  Whether such an OID is taken or ends the walk is not prescribed - the invariants are.
    pad = None
    cands = [(i, j) for i, r in enumerate(script) for j in range(len(r))]
    if cands and u.below(5) == 0:
        i, j = cands[u.below(len(cands))]
        if i > 0 and script[i - 1] and u.bool():
            script[i][j] = (script[u.below(i)] or script[i - 1])[0][0], u.choice(DATA)  # an OID that was sent before
        pad = [i, j, (len(base) - 1) if u.bool() else u.range(2, len(base)), 1 + u.below(2)]
    return {"cfg": cfg, "base": base, "method": method, "script": script, "tail": u.choice(TAILS), "maxrep": u.range(1, 6), "driver": driver, "pad": pad}


def enc_oid_padded(arcs, pos, n):
    """BER of an OID whose sub-identifier number `pos` (>= 2) carries n leading 0x80 octets (non-minimal, same value)."""
    pos = max(2, min(pos, len(arcs) - 1))
    head = rb.oid_content(tuple(arcs[:pos]))
    whole = rb.oid_content(tuple(arcs))
    return rb.tlv(rb.T_OID, whole[:len(head)] + b"\x80" * n + whole[len(head):])


def describe(c):
    return {"cfg": c["cfg"].describe(), "_cfg": gen.cfg_to_json(c["cfg"]), "base": list(c["base"]), "method": c["method"],
            "script": c["script"], "tail": c["tail"], "maxrep": c["maxrep"], "driver": c["driver"], "pad": c.get("pad")}


def spec(c, uni):
    """Executable specification.  Returns (yields, min_yields_if_raise, may_raise, expected_request_oids, finite)."""
    base = c["base"]
    script = c["script"]
    yields = []
    reqs = [base]
    last = base
    accepted_in_subtree = []
    may_raise = False
    k = 0
    step = 0
    while True:
        if step < len(script):
            reply = script[step]
        else:
            # tail strategy
            t = c["tail"]
            if t == "eom":
                reply = [("__last", "eom")]
            elif t == "empty":
                reply = []
            elif t == "repeat":
                reply = [("__repeat", "int")] if accepted_in_subtree else []
            else:
                reply = [("__cycle%d" % (step - len(script)), "int")] if accepted_in_subtree else []
        step += 1
        before = len(yields)
        if not reply:
            return yields, before, may_raise, reqs
        if c["method"] == "getnext" and len(reply) > 1:
            return yields, before, True, reqs
        stop = False
        got_data = False
        for (key, vk) in reply:
            if key == "__last":
                oid = last
            elif key == "__repeat":
                oid = accepted_in_subtree[-1]
            elif key.startswith("__cycle"):
                oid = accepted_in_subtree[int(key[7:]) % len(accepted_in_subtree)]
            else:
                oid = uni[key]
            k += 1
            isdata = vk in DATA
            if c["method"] == "getnext":
                inside = len(oid) > len(base) and oid[:len(base)] == base
                if not inside or not isdata:
                    return yields, before, may_raise, reqs
                if not oid > last:
                    return yields, before, True, reqs
            else:
                if not isdata:
                    continue
                inside = len(oid) > len(base) and oid[:len(base)] == base
                if not inside:
                    stop = True
                    break
                if not oid > last:
                    may_raise = True
                    stop = True
                    break
            yields.append((rb.oid_text(oid), oid, vk, k))
            accepted_in_subtree.append(oid)
            last = oid
            got_data = True
        if stop or not got_data:
            return yields, before, may_raise, reqs
        reqs.append(last)
        if step > len(script) + 40:
            raise AssertionError("specification does not terminate")


def value_of(vk, k):
    return VALS[vk](k)


def execute(G, c):
    cfg = c["cfg"]
    uni = universe(c["base"])
    yields, min_raise, may_raise, exp_reqs = spec(c, uni)
    seen_reqs = []
    st = {"step": 0, "k": 0, "accepted": []}

    def handler(d):
        req = ag.decode_request(cfg, d, strict=False)
        seen_reqs.append(req["varbinds"][0][0] if req["varbinds"] else None)
        step = st["step"]
        st["step"] += 1
        if step < len(c["script"]):
            reply = c["script"][step]
        else:
            t = c["tail"]
            acc = [y[1] for y in yields]
            if t == "eom":
                reply = [("__last", "eom")]
            elif t == "empty" or not acc:
                reply = []
            elif t == "repeat":
                reply = [("__repeat", "int")]
            else:
                reply = [("__cycle%d" % (step - len(c["script"])), "int")]
        vbs = []
        acc = [y[1] for y in yields]
        for j, (key, vk) in enumerate(reply):
            if key == "__last":
                oid = seen_reqs[-1] or c["base"]
            elif key == "__repeat":
                oid = acc[-1]
            elif key.startswith("__cycle"):
                oid = acc[int(key[7:]) % len(acc)]
            else:
                oid = uni[key]
            st["k"] += 1
            pd = c.get("pad")
            if pd and step < len(c["script"]) and (step, j) == (pd[0], pd[1]) and len(oid) > 2:
                name = enc_oid_padded(oid, pd[2], pd[3])
            else:
                name = rb.enc_oid(oid)
            vbs.append(rb.varbind(name, value_of(vk, st["k"])[0]))
        return [ag.build_reply(cfg, req, vbs)]

    limit = len(c["script"]) + 3
    base_txt = rb.oid_text(c["base"])
    call = ("getnext", base_txt) if c["method"] == "getnext" else ("getbulk", base_txt, c["maxrep"])
    out = drivers.run_api(G, c["driver"], cfg, call, handler, timeout=5.0, max_steps=limit + 2, max_items=6 * limit + 12)
    info = "%s(%s) over %s [%s] script=%r tail=%s" % (c["method"], base_txt, cfg.version, c["driver"], c["script"], c["tail"])
    exp_pairs = [(y[0], value_of(y[2], y[3])[1]) for y in yields]
    if out.kind == "runaway" or len(seen_reqs) > limit:
        raise core.Failure("walk-does-not-end:tail=" + c["tail"], "%s: %d requests and still going (bound %d); yielded %r"
                           % (info, len(seen_reqs), limit, [x[0] for x in drivers.walk_pairs(out.partial or out.value or [], info)][:12]))
    got = out.value if out.kind == "ok" else (out.partial or [])
    got = drivers.walk_pairs(got, info)
    # invariants first (they give the most telling signatures)
    prev = c["base"]
    for g in got:
        arcs = rb.parse_oid_text(g[0])
        if not (len(arcs) > len(c["base"]) and arcs[:len(c["base"])] == c["base"]):
            raise core.Failure("yielded-outside-subtree", "%s: yielded %s" % (info, g[0]))
        if not arcs > prev:
            raise core.Failure("yielded-non-increasing", "%s: yielded %s after %s" % (info, g[0], rb.oid_text(prev)))
        prev = arcs
    if c.get("pad"):
        # a non-minimally encoded OID was in play: taking it or ending the walk there are both defensible, so only the
        # invariants above (inside the subtree, strictly increasing, bounded number of requests) and the outcome class count
        if out.kind == "exc" and not isinstance(out.exc, G.SnmpError):
            raise core.Failure("walk-raised:" + type(out.exc).__name__, "%s: raised %r" % (info, out.exc))
        return len(got), len(seen_reqs)
    if out.kind == "exc":
        e = out.exc
        if not (may_raise and isinstance(e, G.SnmpError)):
            raise core.Failure("walk-raised:" + type(e).__name__, "%s: raised %r; the specification yields %r and ends" % (info, e, [p[0] for p in exp_pairs]))
        if not (exp_pairs[:len(got)] == got and len(got) >= min(min_raise, len(exp_pairs))):
            raise core.Failure("yields-before-raise", "%s: yielded %r before raising, specification %r" % (info, got, exp_pairs))
    else:
        if got != exp_pairs:
            raise core.Failure("wrong-yields", "%s: yielded %r, specification %r" % (info, got, exp_pairs))
    if seen_reqs[:len(exp_reqs)] != exp_reqs[:len(seen_reqs)] or (out.kind == "ok" and len(seen_reqs) not in (len(exp_reqs),)):
        raise core.Failure("follow-up-request", "%s: requests asked for %r, specification %r" % (info, seen_reqs, exp_reqs))
    return len(got), len(seen_reqs)


def is_nontrivial(c):
    seen = []
    for i, rep_ in enumerate(c["script"]):
        for j, (k, v) in enumerate(rep_):
            if not k.startswith("in"):
                return True
            if k in seen:
                return True
            seen.append(k)
            if v not in DATA and not (i == len(c["script"]) - 1 and j == len(rep_) - 1):
                return True
    return c["tail"] in ("repeat", "cycle")


def run(rep, tier):
    G = drivers.load()
    rep.rule = ("Hypothesis hostile-agent scripts (0..8 replies x 0..6 varbinds over a 16-OID universe around the base incl. look-alikes, "
                "6 value kinds) + tail strategy (eom / empty / repeat / cycle) x getnext/getbulk x versions x nb/sync/async. Non-trivial = "
                "script contains an out-of-subtree, repeated or decreasing OID, an exception value at a non-final position, or a looping "
                "tail; distinct by (base, method, script, tail, maxrep).")
    rep.assumptions = ["termination is judged by request count (len(script)+3), never by wall clock"]

    def body(c):
        ny, nr = execute(G, c)
        rep.case((c["base"], c["method"], repr(c["script"]), c["tail"], c["maxrep"]), is_nontrivial(c),
                 sample={"base": rb.oid_text(c["base"]), "method": c["method"], "script": c["script"], "tail": c["tail"], "yielded": ny, "requests": nr},
                 classes=["method:" + c["method"], "tail:" + c["tail"], "driver:" + c["driver"], "ver:" + c["cfg"].version,
                          "yielded:0" if ny == 0 else ("yielded:1-3" if ny <= 3 else "yielded:4+")])

    n = 3000 if tier == "quick" else 100000
    if core.run_hypothesis(rep, gen.case_strategy(build_case, 1024), body, n, describe=describe):
        return
    if tier == "thorough":
        exhaustive(rep, G)


def exhaustive(rep, G):
    """Universe of 6 OIDs x 4 value kinds, replies of length <= 2, depth <= 3, all tails, both methods."""
    cfg = ag.Cfg("v2c")
    base = (1, 3, 6, 1, 4)
    keys = ["below", "base", "in1", "in2", "in6", "above"]
    vks = ["int", "null", "nsi", "eom"]
    pairs = [(k, v) for k in keys for v in vks]
    replies = [[]] + [[p] for p in pairs] + [[p, q] for p in pairs[::3] for q in pairs[::2]]
    total = 0
    for method in ("getnext", "getbulk"):
        for depth in (1, 2, 3):
            pool = replies if depth < 3 else replies[:25]
            for script in itertools.product(pool, repeat=depth):
                for tail in TAILS:
                    c = {"cfg": cfg, "base": base, "method": method, "script": [list(r) for r in script], "tail": tail, "maxrep": 2, "driver": "nb"}
                    try:
                        execute(G, c)
                    except core.Failure as f:
                        rep.violation(f.signature, describe(c), f.message)
                        return
                    total += 1
                    if total % 7 == 0:
                        rep.case((method, repr(script), tail), True, classes=["exhaustive_sampled"])
    rep.evaluations += total
    rep.extra["exhaustive_scripts"] = total


def replay(rep, case, body=None):
    G = drivers.load()
    c = {"cfg": gen.cfg_from_json(case["_cfg"]), "base": tuple(case["base"]), "method": case["method"],
         "script": [[tuple(p) for p in r] for r in case["script"]], "tail": case["tail"], "maxrep": case["maxrep"], "driver": case["driver"], "pad": case.get("pad")}
    try:
        execute(G, c)
    except core.Failure as f:
        rep.violation(f.signature, case, f.message)
