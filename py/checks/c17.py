"""C17 - Oversized requests fail cleanly; buffer code stays in bounds.

(a) this file, E1: size sweeps.  get_many requests are constructed so that the message length lands on chosen targets in
windows around 127/128, 255/256 (at every nesting level these boundaries are crossed while sizes grow) and CAP-40..CAP+200
(CAP = MAX_SIZE read from /repo/src/buf/buffer.rs, 4080 at the pinned commit); community lengths 0..5000, v3 user names
0..5000, engine ids up to 64 octets; x {v1, v2c, v3 plain/auth/DES/AES}; each attempt is followed by a normal request on
the same and on another session.
Oracle: dichotomy - either the agent receives exactly one datagram that the strict reference decoder reads back as the
request (every nested length right), or the call raises SnmpEncodeError and the agent receives nothing.  A request whose
reference encoding cannot fit CAP must take the second branch, one that certainly fits must take the first.
(b) rs/harness/buffer.rs (E2 proptest) + rs/fuzz/buffer_ops.rs (E3, ASan): op sequences on Buffer against a Vec model.
"""
import os
import re

from vlib import agent as ag
from vlib import build, core, drivers, gen, wire
from vlib import refber as rb

LEVEL = "exploration"


def read_cap():
    try:
        txt = open(os.path.join(build.REPO, "src", "buf", "buffer.rs")).read()
        m = re.search(r"const\s+MAX_SIZE\s*:\s*usize\s*=\s*([0-9_]+)", txt)
        return int(m.group(1).replace("_", ""))
    except Exception:  # noqa: BLE001
        return 4080


def ref_request_size(cfg, oids, idbytes, cap_block=True):
    """Size of the reference encoding of a Get request with request-id/msgID of `idbytes` content octets.
    Returns (total, scoped_len)."""
    rid = 1 << (8 * idbytes - 2)  # positive, exactly idbytes octets
    vbs = [rb.varbind(rb.enc_oid(o), rb.tlv(rb.T_NULL, b"")) for o in oids]
    p = rb.pdu(rb.PDU_GET, rid, 0, 0, vbs)
    if cfg.version != "v3":
        return len(rb.msg_community(1, cfg.community.encode(), p)), 0
    sc = rb.scoped_pdu(cfg.engine_id, b"", p)
    if cfg.priv:
        block = 8 if cfg.priv == "des" else 16
        padded = len(sc) + (-len(sc)) % block
        data = rb.tlv(rb.T_OCTETS, b"\0" * padded)
    else:
        data = sc
    usm = rb.usm_params(cfg.engine_id, 0, 0, cfg.user.encode(), b"\0" * 12 if cfg.auth else b"", b"\0" * 8 if cfg.priv else b"")
    return len(rb.msg_v3(rid, 2048, 0, 3, usm, data)), len(sc)


def fits(cfg, oids, cap):
    """'must' | 'mustnot' | 'either' for the dichotomy, allowing for the unknown widths of the random ids (1..4 octets)."""
    tmax, smax = ref_request_size(cfg, oids, 4)
    tmin, smin = ref_request_size(cfg, oids, 1)
    block = {None: 0, "des": 8, "aes": 16}[cfg.priv if cfg.version == "v3" else None]
    if tmax <= cap and smax + block <= cap:
        return "must", tmax
    if tmin > cap or (block and smin > cap):
        return "mustnot", tmin
    return "either", tmax


def grow_to(cfg, oids, target):
    """Add single-octet arcs (and further OIDs) until the reference size reaches the target (ids counted with
    4 octets).  Sizes are re-measured with the reference encoder; bulk steps keep the number of measurements small."""
    oids = [list(o) for o in oids]
    size = ref_request_size(cfg, [tuple(o) for o in oids], 4)[0]
    rounds = 0
    i = 0
    while size < target and rounds < 400:
        need = target - size
        step = need - 12 if need > 24 else 1  # leave room for length-form growth, then approach octet by octet
        added = 0
        while added < step:
            o = oids[i % len(oids)]
            room = 128 - len(o)
            if room <= 0:
                if all(len(x) >= 128 for x in oids):
                    oids.append([1, 3, 6, 1])
                    added += 9
                i += 1
                continue
            k = min(room, step - added)
            o.extend([1 + ((len(o) + j) % 100) for j in range(k)])
            added += k
            i += 1
        size = ref_request_size(cfg, [tuple(o) for o in oids], 4)[0]
        rounds += 1
    return [tuple(o) for o in oids]


def build_case(u, cap=4080, target=None, cfgsel=None):
    cfg = gen.g_cfg(u)
    dim = u.choice(["oids", "oids", "oids", "community_or_user", "engine"])
    if cfg.version == "v3":
        cfg.engine_id = b"\x80" + u.take(u.range(4, 63)) if dim == "engine" else gen.ENGINE_IDS[u.below(len(gen.ENGINE_IDS))]
    if dim == "community_or_user":
        n = u.choice([0, 1, 100, 127, 128, 255, 256, 1000, 3900, 4000, 4050, 4080, 5000]) if u.bool() else u.below(5001)
        if cfg.version == "v3":
            cfg.user = "u" * n
        else:
            cfg.community = "c" * n
    if target is None:
        w = u.below(8)
        # the 127/128 and 255/256 boundaries are crossed by the varbind list, the PDU, the scoped PDU, msgSecurityParameters and
        # the message at different total sizes (v1 ~ +25, v3 ~ +130 octets of wrapping): cover the whole band
        if w == 0:
            target = u.range(100, 300)
        elif w == 1:
            target = u.range(240, 430)
        elif w <= 5:
            target = u.range(cap - 40, cap + 200)
        else:
            target = u.range(60, cap + 600)
    n0 = u.range(1, 40)
    oids = [gen.g_oid(u, 2, 12) for _ in range(n0)]
    return {"cfg": cfg, "oids": oids, "target": target, "dim": dim}


def describe(c):
    return {"cfg": c["cfg"].describe(), "_cfg": gen.cfg_to_json(c["cfg"]), "target": c["target"], "dim": c["dim"],
            "oids": [list(o) for o in c["oids"]]}


def execute(G, c, cap, links):
    cfg = c["cfg"]
    link, link2 = links
    oids = grow_to(cfg, c["oids"], c["target"])
    verdict, size = fits(cfg, oids, cap)
    cl = drivers.NbClient(G, cfg, link)
    other = drivers.NbClient(G, ag.Cfg("v2c"), link2)
    link.recv_all()
    link2.recv_all()
    call = ("get_many", [rb.oid_text(o) for o in oids])
    model = wire.SessionModel(cfg)
    info = "get_many of %d oids over %s: reference size %d (ids of 4 octets), CAP %d, verdict %s" % (len(oids), cfg.describe()[:80], size, cap, verdict)
    try:
        cl.send("get_many", call[1])
        raised = None
    except G.SnmpEncodeError as e:
        raised = e
    except BaseException as e:  # noqa: BLE001
        raise core.Failure("oversize-wrong-exception:" + type(e).__name__, "%s raised %r" % (info, e))
    got = link.recv_all()
    if raised is not None:
        if got:
            raise core.Failure("encode-error-but-sent", "%s: SnmpEncodeError yet %d datagram(s) sent" % (info, len(got)))
        if verdict == "must":
            raise core.Failure("fitting-request-refused", info)
        outcome = "refused"
    else:
        if len(got) != 1:
            raise core.Failure("datagram-count", "%s: %d datagrams" % (info, len(got)))
        if verdict == "mustnot":
            raise core.Failure("oversize-request-sent", "%s: %d octets on the wire" % (info, len(got[0])))
        if len(got[0]) > cap:
            raise core.Failure("datagram-larger-than-buffer", "%s: %d octets" % (info, len(got[0])))
        wire.check_structure(model, call, got[0])
        outcome = "sent"
    # follow-ups: same session and another one must be unaffected
    for who, cl2, ln, cfg2 in (("same", cl, link, cfg), ("other", other, link2, ag.Cfg("v2c"))):
        small = ("get", "1.3.6.1.2.1.1.%d.0" % (1 + c["target"] % 7))
        fverdict, _ = fits(cfg2, [rb.parse_oid_text(small[1])], cap)
        try:
            cl2.send("get", small[1])
        except G.SnmpEncodeError:
            if fverdict == "must":
                raise core.Failure("follow-up-refused:" + who, "%s; the follow-up small get on the %s session raised SnmpEncodeError" % (info, who))
            continue
        g2 = ln.recv_all()
        if len(g2) != 1:
            raise core.Failure("follow-up-datagram-count:" + who, "%s: follow-up emitted %d datagrams" % (info, len(g2)))
        wire.check_structure(wire.SessionModel(cfg2), small, g2[0])
    return outcome, size, len(got[0]) if got else 0


def run(rep, tier):
    G = drivers.load()
    cap = read_cap()
    links = (ag.NbLink(), ag.NbLink())
    rep.rule = ("Hypothesis sized requests: get_many whose reference encoding is grown to a target size drawn from windows 100..140, "
                "240..270, CAP-40..CAP+200 and 60..CAP+600; community / user names of 0..5000 octets; engine ids up to 64 octets; all "
                "versions and security levels; each followed by small requests on the same and on another session. Thorough sweeps every "
                "target size in the windows for every configuration. Non-trivial = size within 8 of a length-form or capacity boundary; "
                "distinct by (cfg, size). Part (b): Buffer op sequences against a Vec model (proptest) and under ASan (libFuzzer).")
    rep.assumptions = ["CAP read from src/buf/buffer.rs (MAX_SIZE), 4080 fallback", "request-id/msgID widths (1..4 octets) are random: sizes within that slack accept either branch"]
    rep.extra["cap"] = cap

    def body(c):
        outcome, size, wire_len = execute(G, c, cap, links)
        near = any(abs(size - b) <= 8 for b in (127, 128, 255, 256, cap)) or any(abs(wire_len - b) <= 8 for b in (127, 255, cap) if wire_len)
        rep.case((c["cfg"].describe(), size, outcome), near,
                 sample={"cfg": c["cfg"].describe()[:100], "reference_size": size, "on_wire": wire_len, "outcome": outcome, "dim": c["dim"]},
                 classes=["outcome:" + outcome, "dim:" + c["dim"], "ver:" + c["cfg"].version + ("/%s" % c["cfg"].priv if c["cfg"].version == "v3" else ""),
                          "near_cap" if abs(size - cap) <= 40 else ("beyond_cap" if size > cap else "below_cap")])

    try:
        n = 2500 if tier == "quick" else 20000
        if core.run_hypothesis(rep, gen.case_strategy(lambda u: build_case(u, cap), 2048), body, n, describe=describe):
            return
        if sweep(rep, G, cap, links, tier):
            return
        if stale_padding(rep, G, tier):
            return
        from checks import rsutil
        rsutil.run_rs_part(rep, tier, "C17")
        if not rep.violations:
            from checks import fuzzutil
            fuzzutil.run_fuzz_part(rep, tier, "C17")
    finally:
        for ln in links:
            ln.close()


def stale_padding(rep, G, tier):
    """Cipher buffers: the padding sent after the scoped PDU must not replay octets that went through the private buffer
    earlier (the previous decrypted reply or the previous request) - 'exposes bytes that were never written' for this message."""
    from checks import v3hist

    def build(u):
        cfg = v3hist.g_v3cfg(u, need_priv=True)
        return {"cfg": cfg, "steps": v3hist.g_steps(u, u.range(2, 10), ["reply", "reply", "reply_pad", "none", "reply_time"])}

    def body(c):
        info = v3hist.execute(G, c["cfg"], c["steps"], {"stale_pad"})
        rep.case(repr(v3hist.describe(c["cfg"], c["steps"])), info["requests"] >= 2, classes=["stale_padding_history", "priv:%s" % c["cfg"].priv])

    return core.run_hypothesis(rep, gen.case_strategy(build, 2048), body, 300 if tier == "quick" else 6000,
                               describe=lambda c: dict(v3hist.describe(c["cfg"], c["steps"]), kind="stale_padding"))


def sweep(rep, G, cap, links, tier="thorough"):
    """Every target size in the windows for every configuration class (quick: the capacity window only, octet by octet,
    because a capacity defect may sit at one magic size)."""
    cfgs = [ag.Cfg("v1"), ag.Cfg("v2c"), ag.Cfg("v3", engine_id=gen.ENGINE_IDS[0]),
            ag.Cfg("v3", engine_id=gen.ENGINE_IDS[0], auth="sha1", auth_kt="localized"),
            ag.Cfg("v3", engine_id=gen.ENGINE_IDS[0], auth="md5", priv="des", auth_kt="localized", priv_kt="localized"),
            ag.Cfg("v3", engine_id=gen.ENGINE_IDS[0], auth="sha1", priv="aes", auth_kt="localized", priv_kt="localized")]
    total = 0
    for cfg in cfgs:
        sizes = list(range(cap - 70, cap + 40))
        if tier == "thorough":
            sizes = list(range(100, 430)) + list(range(cap - 200, cap + 120))
        for t in sizes:
            c = {"cfg": cfg, "oids": [(1, 3, 6, 1, 2, 1, 1, 1, 0)], "target": t, "dim": "sweep"}
            try:
                outcome, size, wl = execute(G, c, cap, links)
            except core.Failure as f:
                rep.violation(f.signature, describe(c), f.message)
                return True
            total += 1
            rep.case(("sweep", cfg.describe(), t), True, classes=["sweep", "sweep_outcome:" + outcome])
    rep.extra["sweep_sizes"] = total
    return False


def replay(rep, case, body=None):
    if isinstance(case, dict) and case.get("engine") == "E3":
        from checks import fuzzutil
        fuzzutil.replay_input(rep, "C17", case)
        return
    G = drivers.load()
    if case.get("kind") == "stale_padding":
        from checks import v3hist
        cfg, steps = v3hist.undescribe(case)
        try:
            v3hist.execute(G, cfg, steps, {"stale_pad"})
        except core.Failure as f:
            rep.violation(f.signature, case, f.message)
        return
    links = (ag.NbLink(), ag.NbLink())
    c = {"cfg": gen.cfg_from_json(case["_cfg"]), "oids": [tuple(o) for o in case["oids"]], "target": case["target"], "dim": case["dim"]}
    try:
        execute(G, c, read_cap(), links)
    except core.Failure as f:
        rep.violation(f.signature, case, f.message)
    finally:
        for ln in links:
            ln.close()
