"""Run the Rust proptest runner (E2) and merge its results into a Reporter. (filled in later)"""


def run_rs_part(rep, tier, pid):
    return
