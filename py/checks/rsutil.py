"""Run the Rust proptest runner (E2: rsprop inside the mirror crate) and merge its results into a Reporter."""
import json
import os
import subprocess
import time

from vlib import build, core

PROP_OF = {"C15": "c15", "C16": "c16", "C17": "c17", "C02": "c02"}


def run_rs_part(rep, tier, pid, required=False):
    """required=True: a harness that cannot be built makes the whole check inconclusive (C15/C16, which have no
    complete E1 counterpart); otherwise the E2 part is reported as unavailable and the verdict comes from E1."""
    t0 = time.time()
    if os.environ.get("VERIF_PKG_OVERRIDE"):
        return  # Python-layer mutation self-test: the Rust side is the unchanged tree's
    try:
        bins = build.ensure_mirror()
    except build.BuildError as e:
        if required:
            raise
        rep.parts["E2"] = {"status": "unavailable", "reason": "mirror harness does not build against this tree: %s" % str(e)[-400:]}
        print("[%s] E2 part unavailable (harness does not build); verdict from E1 only" % pid)
        return
    cmd = [bins["rsprop"], PROP_OF[pid], tier, str(rep.seed)]
    p = subprocess.run(cmd, stdout=subprocess.PIPE, stderr=subprocess.PIPE, text=True, env=build.run_env())
    line = p.stdout.strip().splitlines()[-1] if p.stdout.strip() else ""
    try:
        r = json.loads(line)
    except ValueError:
        if p.returncode < 0 or p.returncode > 2:
            # the runner itself died (abort / signal): library code crashed outside catch_unwind
            rep.violation("e2-runner-crash:%d" % p.returncode, {"cmd": cmd}, "rsprop terminated abnormally (status %d): %s" % (p.returncode, p.stderr[-800:]))
            return
        raise core.Inconclusive("rsprop produced no result (status %d): %s" % (p.returncode, p.stderr[-400:]))
    rep.evaluations += r["evaluations"]
    rep.nontrivial_extra += r["distinct_nontrivial"]
    for k, v in r["classes"].items():
        rep.classes["E2:" + k] = rep.classes.get("E2:" + k, 0) + v
    for s in r["samples"][:4]:
        if len(rep.nt_samples) < 8:
            rep.nt_samples.append({"engine": "E2/proptest", "case": s[:600]})
    rep.parts["E2"] = {"status": "ran", "evaluations": r["evaluations"], "distinct_nontrivial": r["distinct_nontrivial"], "wall_s": round(time.time() - t0, 1)}
    if r.get("failure"):
        f = r["failure"]
        rep.violation(f["signature"], {"engine": "E2", "prop": PROP_OF[pid], "case": f["case"][:4000], "seed": rep.seed, "tier": tier}, f["message"])
