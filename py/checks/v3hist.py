"""Shared history machinery for the v3 wire properties C09 / C11 / C14.

A history is a list of steps on one v3 session (non-blocking driver):
  ('call', call, reply)   reply in: reply | reply_time | reply_pad | none | garbage | report
  ('set_keys',)           re-install the same credentials (new salt seed; C14 judges uniqueness per installation)
Every emitted datagram is handed to the selected oracles together with the model's
view of the session (engine id / boots / time after the accepted replies so far).
"""
from vlib import agent as ag
from vlib import core, drivers, gen, wire
from vlib import refber as rb

TIMES = [(0, 0), (1, 1), (127, 128), (255, 256), (32767, 32768), (65535, 65536), (2 ** 23 - 1, 2 ** 23), (2 ** 31 - 1, 2 ** 31 - 1),
         (2 ** 31 - 1, 0), (0, 2 ** 31 - 1), (128, 127), (2 ** 24, 7)]


def g_v3cfg(u, need_auth=False, need_priv=False):
    cfg = gen.g_cfg(u, versions=("v3",), need_auth=need_auth, need_priv=need_priv)
    # RFC 3411 engine ids are 5..32 octets; the library accepts longer ones and must still sign / encrypt correctly
    n = u.range(5, 32) if u.below(8) else u.choice([33, 64, 126, 127, 128, 129, 200, 255, 256])
    eid = b"\x80" + u.take(n - 1)
    cfg.engine_id = eid
    # RFC 3414 limits msgUserName to 32 octets but the library accepts any length, and whatever it emits must be signed
    # correctly: names long enough to need a long-form length sit right in front of the auth field
    ul = (0, 1, 4, 8, 16, 31, 32, u.below(33), 8, 5, 127, 128, 200, 255, 256, 300)[u.below(16)]
    cfg.user = "".join(chr(97 + (b % 26)) for b in u.take(ul))
    cfg.via_set_keys = u.below(3) == 0
    return cfg


def g_call(u, marker=None):
    """A request; with `marker` every OID carries two random 32-bit arcs (C14 leak detection)."""
    def oid():
        arcs = gen.g_oid(u, 2, 10)
        if marker is not None:
            arcs = arcs + (0x10000000 | u.bits(4) >> 4, 0x10000000 | u.bits(4) >> 4)
        return rb.oid_text(arcs)
    k = u.below(8)
    if k <= 1:
        return ("get", oid())
    if k <= 4:
        # sizes that move the outer lengths across 127/128 and 255/256
        n = (1, 2, 3, 5, 8, 12, 20, u.range(1, 40))[u.below(8)]
        return ("get_many", [oid() for _ in range(n)])
    if k == 5:
        return ("getnext1", oid())
    if k == 6:
        return ("getbulk1", oid(), u.choice([1, 10, 255, 65536, 2 ** 31 - 1]))
    return ("refresh",)


def g_steps(u, n, reply_kinds, marker=None, allow_set_keys=False):
    steps = []
    for _ in range(n):
        if allow_set_keys and u.below(40) == 0:
            steps.append(("set_keys",))
            continue
        steps.append(("call", g_call(u, marker), u.choice(reply_kinds), u.bits(3)))
    return steps


def describe(cfg, steps):
    return {"cfg": cfg.describe(), "_cfg": gen.cfg_to_json(cfg), "steps": [list(s) for s in steps]}


def undescribe(case):
    steps = []
    for s in case["steps"]:
        if s[0] == "call":
            call = tuple(s[1])
            steps.append(("call", call, s[2], s[3]))
        else:
            steps.append(("set_keys",))
    return gen.cfg_from_json(case["_cfg"]), steps


def execute(G, cfg, steps, oracles, on_request=None, on_failed_send=None):
    """Run a history.  oracles: subset of {'structure','mac','priv','values','stale_pad'}.
    on_request(model, m, dgram, step_index, installation) is called for every emitted datagram."""
    link = ag.NbLink()
    info = {"requests": 0, "after_unanswered": 0, "after_clear_recv": 0, "long_form": 0, "kinds": set()}
    try:
        if cfg.via_set_keys:
            # created with throw-away credentials, then re-keyed: exactly what the clients do after discovery
            tmp = ag.Cfg("v3", user="tmp", engine_id=cfg.engine_id, auth="md5", auth_kt="localized")
            cl = drivers.NbClient(G, tmp, link)
            cl.sock.set_keys(*cfg.raw_args(cfg.engine_id))
            cl.cfg = cfg
        else:
            cl = drivers.NbClient(G, cfg, link)
        model = wire.SessionModel(cfg)
        installation = 0
        last_plain = []  # plaintexts that passed through the cipher's buffer most recently (reply, request)
        prev_unanswered = False
        prev_clear = False
        for idx, st in enumerate(steps):
            if st[0] == "set_keys":
                cl.sock.set_keys(*cfg.raw_args(model.engine_id))
                installation += 1
                continue
            _, call, reply, p = st
            op = call[0]
            it = None
            try:
                if op in ("getnext1", "getbulk1"):
                    it = cl.make_iter(call[1]) if op == "getnext1" else cl.make_iter(call[1], call[2])
                    cl.send(op[:-1], it)
                else:
                    cl.send(op, call[1] if len(call) > 1 else None)
            except (G.SnmpError, ValueError, RuntimeError, OverflowError) as e:
                if link.recv_all():
                    raise core.Failure("encode-error-but-sent", "%r raised %r yet a datagram was sent" % (call, e))
                # whether a request of this size must fit is C17's question, not this property's
                info["kinds"].add("encode_error")
                if on_failed_send:
                    on_failed_send(idx, installation)
                continue
            got = link.recv_all()
            if len(got) != 1:
                raise core.Failure("datagram-count", "%r emitted %d datagrams" % (call, len(got)))
            d = got[0]
            if "structure" in oracles:
                m = wire.check_structure(model, call, d)
            else:
                m = wire.decode_strict(model, d)
            if "mac" in oracles:
                wire.check_mac(model, m, d)
            if "priv" in oracles:
                wire.check_priv(model, m)
            if "stale_pad" in oracles and cfg.priv:
                pad = m["pad"]
                if len(pad) >= 4 and any(pad):
                    for what, old in last_plain:
                        for i in range(len(pad) - 3):
                            if any(pad[i:i + 4]) and pad[i:i + 4] in old:
                                raise core.Failure("stale-bytes-in-padding:" + cfg.priv,
                                                   "request %d over %s: padding %s repeats octets of the %s that went through the cipher buffer before (%s)"
                                                   % (idx, cfg.describe(), pad.hex(), what, old[-24:].hex()))
                last_plain = [x for x in last_plain if x[0] == "previous reply"][-1:] + [("previous request", m["plain"][:m["scoped_end"]])]
            if on_request:
                on_request(model, m, d, idx, installation)
            info["requests"] += 1
            if prev_unanswered:
                info["after_unanswered"] += 1
            if prev_clear:
                info["after_clear_recv"] += 1
            if wire.distinct_long_form(d[:m["auth_span"][0]]):
                info["long_form"] += 1
            info["kinds"].add(reply)
            # agent action
            recv_op = op[:-1] if op.endswith("1") else op
            first = m["varbinds"][0][0] if m["varbinds"] else (1, 3, 6, 1)
            name = first + (1,)
            is_probe = op == "refresh"
            prev_unanswered = prev_clear = False
            if reply == "none":
                prev_unanswered = True
                expect = ("exc", BlockingIOError)
            elif reply == "garbage":
                link.send(b"\x30\x05\x02\x01\x03\x04" + bytes([p & 0xFF]))
                expect = ("exc", G.SnmpDecodeError)
                prev_unanswered = True
            elif reply == "foreign_report":
                # a Report from *another* engine (matching msgID / user): a session that knows its engine id ignores it
                b, t = TIMES[p % len(TIMES)]
                link.send(ag.build_report(cfg, m, bytes.fromhex("80000009030011223344"), b ^ 1, t ^ 1))
                prev_unanswered = True
                expect = ("exc", BlockingIOError)
            elif reply == "report":
                b, t = TIMES[p % len(TIMES)]
                link.send(ag.build_report(cfg, m, model.engine_id, b, t))
                model.accept(model.engine_id, b, t)
                prev_clear = True
                expect = ("ok", None) if is_probe else ("exc", G.SnmpAuthError)
            else:
                if reply == "reply_time":
                    b, t = TIMES[p % len(TIMES)]
                else:
                    b, t = model.boots, model.time
                val = (p % 100000) - 50000
                vbs = [rb.varbind(rb.enc_oid(name), rb.enc_int(val))]
                kw = {}
                if reply == "reply_pad" and cfg.priv:
                    kw["pad_bytes"] = bytes([(p >> 8) & 0xFF or 0xA5]) * (7 if cfg.priv == "des" else (p % 16))
                    kw["salt"] = (p * 0x9E3779B97F4A7C15 & (2 ** 64 - 1)).to_bytes(8, "big")
                if is_probe:
                    link.send(ag.build_report(cfg, m, model.engine_id, b, t))
                    expect = ("ok", None)
                    prev_clear = True
                else:
                    link.send(ag.build_reply(cfg, m, vbs, boots=b, time=t, **kw))
                    if cfg.priv:
                        sc = rb.scoped_pdu(model.engine_id, b"", rb.pdu(rb.PDU_RESPONSE, m["request_id"], 0, 0, vbs))
                        last_plain = [x for x in last_plain if x[0] == "previous request"][-1:] + [("previous reply", sc + (kw.get("pad_bytes") or b""))]
                    txt = rb.oid_text(name)
                    want = {"get": val, "get_many": {txt: val}, "getnext": (txt, val), "getbulk": [(txt, val)]}[recv_op]
                    expect = ("ok", want)
                model.accept(model.engine_id, b, t)
            try:
                r = cl.recv(recv_op, it)
                out = ("ok", r)
            except BaseException as e:  # noqa: BLE001
                out = ("exc", e)
            if "values" in oracles:
                if expect[0] == "ok":
                    if out[0] != "ok" or out[1] != expect[1]:
                        raise core.Failure("reply-not-delivered:" + str(cfg.priv), "%r over %s, agent action %s: expected %r, got %r"
                                           % (call, cfg.describe(), reply, expect[1], out[1]))
                else:
                    if out[0] != "exc" or not isinstance(out[1], expect[1]):
                        raise core.Failure("unexpected-outcome", "%r over %s, agent action %s: expected %s, got %r"
                                           % (call, cfg.describe(), reply, expect[1].__name__, out[1]))
            elif out[0] == "exc" and type(out[1]).__name__ == "PanicException":
                raise core.Failure("panic", "%r: %r" % (call, out[1]))
    finally:
        link.close()
    return info


def discovered_stage(rep, G, pid, n, need_auth, need_priv, prefixes):
    """Second stage of C09 / C11 / C14: sessions of the real sync / async clients that learn their engine id by discovery
    (also with the first probe lost and refresh() retried) - the path on which the keys are installed by set_keys() after
    the session exists.  Generator and wire oracle are C13's; only failures that are this property's statement (their
    signature starts with one of `prefixes`: the MAC / the encryption of an emitted request) are reported here, everything
    else about such sessions is left to C13."""
    from checks import c13

    def body(c):
        try:
            nmsg, _ = c13.execute_confirmed(G, c, rep)
        except core.Failure as f:
            if f.signature.startswith(tuple(prefixes)):
                raise core.Failure("discovered-session:" + f.signature, f.message)
            else:
                rep.count("discovered_session_failures_left_to_C13")
                return
        rep.case("disc:" + repr(c13.describe(c)), len(c["reqs"]) >= 1,
                 classes=["mode:discovered-session", "driver:" + c["driver"]] + (["lost_first_probe"] if c.get("lost_probe") else []))
        rep.count("discovered_session_messages_checked", nmsg)

    def describe2(c):
        d = c13.describe(c)
        d["_stage"] = "discovered"
        return d

    return core.run_hypothesis(rep, gen.case_strategy(lambda u: c13.build_case(u, need_auth, need_priv, True), 1024), body, n, describe=describe2)


def replay_discovered(rep, case):
    from checks import c13
    return c13.replay(rep, case)
