"""C05 - A walk returns the whole subtree, in order, once - by GetNext or GetBulk.

Generator: finite MIBs (0..60 entries built as a prefix tree over a small arc alphabet so siblings share byte
prefixes, multi-octet arcs next to single-octet ones: 127/128, 16383/16384, 2^32-1; entries before and after
the subtree; empty MIB) x base OIDs (inner node, leaf, absent node, first/last subtree) x max_repetitions 1..50 x
agent-side cap 1..50 x {v1 (getnext, fetch), v2c, v3} x {nb, sync, async}.
Agent: RFC 3416 model agent (GetNext, GetBulk with cap and endOfMibView padding, v1 noSuchName echo).
Oracle: list(walk) == [(oid, value) for oid in sorted(MIB, key=arc tuple) if oid is strictly below base]; the walk
ends within |MIB| + 2 requests.
"""
from vlib import agent as ag
from vlib import core, drivers, gen
from vlib import refber as rb

LEVEL = "exploration"
ALPHABET = [0, 1, 2, 3, 126, 127, 128, 129, 255, 256, 16383, 16384, 16385, 2 ** 21, 2 ** 28 - 1, 2 ** 32 - 1]


def g_suffix(u, maxlen=4):
    return tuple(u.choice(ALPHABET) if u.below(3) else u.below(4) for _ in range(u.range(1, maxlen)))


def build_case(u):
    cfg = gen.g_cfg(u)
    root = gen.g_oid(u, 2, 5)
    if u.below(20) == 0:
        root = (2, 39) + root[2:]  # nothing can follow the last top-level subtree
    n = u.below(8) if u.below(3) == 0 else u.below(61)
    mib = {}
    for _ in range(n):
        k = u.below(10)
        if k == 0 and root[-1] > 0:
            name = root[:-1] + (root[-1] - 1,) + g_suffix(u, 2)  # before the root subtree
        elif k == 1 and root[-1] < 2 ** 32 - 1 and len(root) > 2:
            name = root[:-1] + (root[-1] + 1,) + g_suffix(u, 2)  # after it
        else:
            name = root + g_suffix(u)
        mib[name] = gen.g_data_value(u)
    names = sorted(mib)
    k = u.below(8)
    if k == 0 or not names:
        base = root
    elif k == 1:
        base = names[u.below(len(names))]  # a leaf
    elif k <= 4:
        nm = names[u.below(len(names))]
        base = nm[:u.range(2, len(nm))] if len(nm) > 2 else nm  # an inner node
    elif k == 5:
        nm = names[u.below(len(names))]
        base = nm[:-1] + (min(nm[-1] + 1, 2 ** 32 - 1),)  # possibly absent sibling
    elif k == 6:
        base = names[-1][:max(2, len(names[-1]) - 1)]  # last subtree
    else:
        base = root + g_suffix(u, 2)
    if len(base) < 2:
        base = root
    method = u.choice(["getnext", "getbulk", "fetch"])
    if cfg.version == "v1" and method == "getbulk":
        method = "getnext"
    driver = ("nb", "nb", "nb", "nb", "nb", "sync", "async", "nb")[u.below(8)]
    # history: sometimes another walk (other base, other method) runs first on the same session
    prior = None
    if u.below(3) == 0 and names:
        # 'getbulk1': only the first item of a bulk walk is consumed, the rest stays buffered in the abandoned iterator
        pm = u.choice(["getnext", "getbulk", "getbulk1", "getbulk1"]) if cfg.version != "v1" else "getnext"
        pn = names[u.below(len(names))]
        prior = (pm, pn[:u.range(2, len(pn))] if len(pn) > 2 else pn)
    return {"cfg": cfg, "mib": mib, "base": base, "method": method, "driver": driver, "maxrep": u.range(1, 50),
            "cap": u.range(1, 50), "pad_eom": u.bool(), "allow_bulk": u.bool(3, 4), "prior": prior}


def describe(c):
    return {"cfg": c["cfg"].describe(), "_cfg": gen.cfg_to_json(c["cfg"]), "base": list(c["base"]), "method": c["method"],
            "driver": c["driver"], "maxrep": c["maxrep"], "cap": c["cap"], "pad_eom": c["pad_eom"], "allow_bulk": c["allow_bulk"],
            "prior": [c["prior"][0], list(c["prior"][1])] if c.get("prior") else None,
            "mib": [[list(k), v.kind, v.tlv, ({"float": repr(v.py)} if isinstance(v.py, float) else v.py)] for k, v in sorted(c["mib"].items())]}


def model_agent(c, counter):
    cfg, mib = c["cfg"], c["mib"]
    names = sorted(mib)
    eom = rb.tlv(rb.T_ENDOFMIBVIEW, b"")

    def successors(oid):
        return [n for n in names if n > oid]

    def handler(d):
        req = ag.decode_request(cfg, d, strict=False)
        counter["n"] += 1
        oid = req["varbinds"][0][0]
        succ = successors(oid)
        if req["pdu_tag"] == rb.PDU_GETNEXT:
            if succ:
                n = succ[0]
                return [ag.build_reply(cfg, req, [rb.varbind(rb.enc_oid(n), mib[n].tlv)])]
            if cfg.version == "v1":
                return [ag.build_reply(cfg, req, [rb.varbind(rb.enc_oid(oid), rb.tlv(rb.T_NULL, b""))], error_status=2, error_index=1)]
            return [ag.build_reply(cfg, req, [rb.varbind(rb.enc_oid(oid), eom)])]
        if req["pdu_tag"] == rb.PDU_GETBULK:
            k = max(0, min(req["f2"], c["cap"]))
            vbs = [rb.varbind(rb.enc_oid(n), mib[n].tlv) for n in succ[:k]]
            if len(succ) < k:
                last = succ[-1] if succ else oid
                npad = (k - len(succ)) if c["pad_eom"] else 1
                vbs += [rb.varbind(rb.enc_oid(last), eom)] * npad
            return [ag.build_reply(cfg, req, vbs)]
        return []
    return handler


def execute(G, c):
    cfg = c["cfg"]
    counter = {"n": 0}
    handler = model_agent(c, counter)
    base_txt = rb.oid_text(c["base"])
    if c["method"] == "getnext":
        call = ("getnext", base_txt)
    elif c["method"] == "getbulk":
        call = ("getbulk", base_txt, c["maxrep"])
    else:
        call = ("fetch", base_txt)
    kw = {}
    if c["driver"] != "nb":
        kw["session_kw"] = {"allow_bulk": c["allow_bulk"], "max_repetitions": c["maxrep"]}
    elif c["method"] == "fetch":
        call = ("getnext", base_txt) if (cfg.version == "v1" or not c["allow_bulk"]) else ("getbulk", base_txt, c["maxrep"])
    exp = [(rb.oid_text(n), c["mib"][n]) for n in sorted(c["mib"]) if len(n) > len(c["base"]) and n[:len(c["base"])] == c["base"]]
    calls = [call]
    if c.get("prior"):
        pm, pb = c["prior"]
        calls.insert(0, ("getnext", rb.oid_text(pb)) if pm == "getnext" else ((pm, rb.oid_text(pb), 7)))
    outs = drivers.run_calls(G, c["driver"], cfg, calls, handler, timeout=5.0, max_steps=len(c["mib"]) + 3, max_items=len(c["mib"]) + 5,
                             **({"session_kw": kw["session_kw"]} if "session_kw" in kw else {}))
    if len(outs) == 2:
        pb = c["prior"][1]
        pexp = [rb.oid_text(n) for n in sorted(c["mib"]) if len(n) > len(pb) and n[:len(pb)] == pb]
        po = outs[0]
        if c["prior"][0] == "getbulk1":
            # one item (or the end of the walk) - whatever the driver's shape for a single step is
            first = None
            if po.kind == "ok":
                v = po.value
                first = v[0][0] if isinstance(v, list) and v and v[0] is not None else (v[0] if isinstance(v, tuple) else None)
            if (pexp and first != pexp[0]) or (not pexp and po.kind == "ok" and first is not None):
                raise core.Failure("prior-walk-wrong", "first step of %r gave %r, subtree starts %r" % (calls[0], po, pexp[:2]))
        elif po.kind != "ok" or [g[0] for g in drivers.walk_pairs(po.value, "first walk %r" % (calls[0],))] != pexp:
            raise core.Failure("prior-walk-wrong", "first walk %r on the session gave %r, subtree is %r" % (calls[0], po, pexp[:8]))
        counter["n"] = len(outs[1].requests)
    out = outs[-1]
    info = "%s(%s) [%s, %s, maxrep %d cap %d] over a MIB of %d entries" % (c["method"], base_txt, cfg.version, c["driver"], c["maxrep"], c["cap"], len(c["mib"]))
    if out.kind == "runaway":
        raise core.Failure("walk-does-not-end", "%s: still going after %d requests; yielded %r" % (info, counter["n"], [x[0] for x in drivers.walk_pairs(out.partial, info)][:10]))
    if out.kind != "ok":
        raise core.Failure("walk-raised:" + type(out.exc).__name__, "%s: raised %r after yielding %d items" % (info, out.exc, len(out.partial or [])))
    got = drivers.walk_pairs(out.value, info)
    gk = [g[0] for g in got]
    ek = [e[0] for e in exp]
    if gk != ek:
        missing = [k for k in ek if k not in gk]
        extra = [k for k in gk if k not in ek]
        sig = "entries-missing" if missing else ("entries-extra" if extra else "order-or-duplicates")
        raise core.Failure(sig, "%s: yielded %d items, subtree has %d; missing %r extra %r" % (info, len(gk), len(ek), missing[:5], extra[:5]))
    for (k, v), g in zip(exp, got):
        if not gen.py_equal(v.py, g[1]):
            raise core.Failure("value", "%s: %s yielded as %r, MIB holds %r" % (info, k, g[1], v.py))
    if counter["n"] > len(c["mib"]) + 2:
        raise core.Failure("too-many-requests", "%s: %d requests" % (info, counter["n"]))
    return len(exp), counter["n"]


def run(rep, tier):
    G = drivers.load()
    rep.rule = ("Hypothesis (MIB, base, method, max_repetitions, cap, version, driver) tuples; MIB 0..60 entries in a prefix tree over arcs "
                "{0..3,126..129,255,256,16383..16385,2^21,2^28-1,2^32-1}; RFC 3416 model agent; a third of the cases run another (complete or abandoned) walk on the same session first. Non-trivial = subtree has >=2 entries and "
                "the MIB has an entry after it, or the walk needs >=2 GetBulk requests, or the base ends in a multi-octet arc; distinct "
                "by (cfg, MIB names, base, method, maxrep, cap).")

    def body(c):
        nsub, nreq = execute(G, c)
        names = sorted(c["mib"])
        after = any(n > c["base"] and n[:len(c["base"])] != c["base"] for n in names)
        nt = (nsub >= 2 and after) or (c["method"] != "getnext" and nreq >= 3) or c["base"][-1] >= 128
        rep.case((c["cfg"].describe(), tuple(names), c["base"], c["method"], c["maxrep"], c["cap"]), nt,
                 sample={"cfg": c["cfg"].describe(), "base": rb.oid_text(c["base"]), "method": c["method"], "driver": c["driver"],
                         "mib_size": len(names), "subtree": nsub, "requests": nreq, "maxrep": c["maxrep"], "cap": c["cap"]},
                 classes=["method:" + c["method"], "driver:" + c["driver"], "ver:" + c["cfg"].version,
                          "subtree:0" if nsub == 0 else ("subtree:1" if nsub == 1 else "subtree:2+"),
                          "entry_after_subtree" if after else "subtree_is_last", "cap<maxrep" if c["cap"] < c["maxrep"] else "cap>=maxrep"])

    n = 1500 if tier == "quick" else 50000
    core.run_hypothesis(rep, gen.case_strategy(build_case, 4096), body, n, describe=describe)


def replay(rep, case, body=None):
    G = drivers.load()
    mib = {}
    for k, kind, tlv, py in case["mib"]:
        mib[tuple(k)] = gen.Val(kind, float(py["float"]) if isinstance(py, dict) and "float" in py else py, tlv)
    c = {"cfg": gen.cfg_from_json(case["_cfg"]), "mib": mib, "base": tuple(case["base"]), "method": case["method"],
         "driver": case["driver"], "maxrep": case["maxrep"], "cap": case["cap"], "pad_eom": case["pad_eom"], "allow_bulk": case["allow_bulk"],
         "prior": (case["prior"][0], tuple(case["prior"][1])) if case.get("prior") else None}
    try:
        execute(G, c)
    except core.Failure as f:
        rep.violation(f.signature, case, f.message)
