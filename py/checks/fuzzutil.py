"""Run libFuzzer campaigns (E3) and merge their results into a Reporter. (filled in later)"""


def run_fuzz_part(rep, tier, pid):
    return
