"""Run libFuzzer campaigns (E3: cargo-fuzz targets over the mirror crate, ASan on) and merge the results
into a Reporter.  Campaigns are fixed-work (-runs), seeded from VERIF_SEED, start from a fresh copy of the
committed corpus; a crash / oracle panic / ASan report is a violation with the saved input as replay,
a libFuzzer timeout or OOM is inconclusive (exit 2), never a violation."""
import concurrent.futures
import hashlib
import json
import os
import re
import shutil
import subprocess
import time

from vlib import build, core

# property -> [(target, quick runs per worker, thorough runs per worker, max_len)]
PLAN = {
    "C01": [("decoders", 400_000, 12_000_000, 4080), ("recv_path", 60_000, 1_500_000, 2048)],
    "C16": [("decoders", 400_000, 12_000_000, 1024)],
    "C17": [("buffer_ops", 40_000, 1_500_000, 600)],
}


def _env():
    e = build.run_env()
    e["ASAN_OPTIONS"] = "detect_leaks=0:abort_on_error=0:allocator_may_return_null=1"
    e["RUST_BACKTRACE"] = "0"
    return e


def signature_from(stderr):
    m = re.search(r"ORACLE:([A-Za-z0-9_:=,.-]+)", stderr)
    if m:
        return "oracle:" + m.group(1)
    m = re.search(r"panicked at ([^\s:]+):(\d+)", stderr)
    if m:
        f = m.group(1)
        f = f.split("/src/")[-1] if "/src/" in f else f
        return "panic:%s:%s" % (f, m.group(2))
    m = re.search(r"ERROR: AddressSanitizer: ([a-z-]+)", stderr)
    if m:
        return "asan:" + m.group(1)
    m = re.search(r"ERROR: libFuzzer: ([a-z -]+)", stderr)
    if m:
        return "libfuzzer:" + m.group(1).strip().replace(" ", "-")
    return "crash"


def _worker(binary, workdir, runs, seed, max_len, corpus_src):
    shutil.rmtree(workdir, ignore_errors=True)
    cdir = os.path.join(workdir, "corpus")
    adir = os.path.join(workdir, "artifacts")
    os.makedirs(cdir)
    os.makedirs(adir)
    if os.path.isdir(corpus_src):
        for f in os.listdir(corpus_src):
            shutil.copy(os.path.join(corpus_src, f), os.path.join(cdir, f))
    cmd = [binary, "-runs=%d" % runs, "-seed=%d" % seed, "-max_len=%d" % max_len, "-len_control=0", "-timeout=10",
           "-rss_limit_mb=4096", "-artifact_prefix=%s/" % adir, "-print_final_stats=1", "-verbosity=0", cdir]
    t0 = time.time()
    p = subprocess.run(cmd, stdout=subprocess.PIPE, stderr=subprocess.PIPE, text=True, errors="replace", env=_env(), cwd=workdir)
    m = re.search(r"stat::number_of_executed_units:\s*(\d+)", p.stderr)
    execs = int(m.group(1)) if m else 0
    arts = sorted(os.listdir(adir))
    keep = "\n".join(l for l in p.stderr.splitlines() if ("ORACLE" in l or "panicked" in l or "ERROR:" in l or "SUMMARY" in l))[:3000]
    return {"rc": p.returncode, "execs": execs, "artifacts": [os.path.join(adir, a) for a in arts], "stderr": keep + "\n" + p.stderr[-3000:],
            "signature": signature_from(p.stderr) if p.returncode != 0 else None,
            "corpus": cdir, "wall": time.time() - t0, "seed": seed}


def _classify(binary, corpus_dirs):
    """Re-run the target over the final corpora in classify mode: distinct non-trivial inputs and samples."""
    seen = {}
    samples = []
    classes = {}
    env = _env()
    env["VERIF_CLASSIFY"] = "1"
    for cdir in corpus_dirs:
        files = [os.path.join(cdir, f) for f in sorted(os.listdir(cdir))]
        for i in range(0, len(files), 400):
            chunk = files[i:i + 400]
            p = subprocess.run([binary, "-verbosity=0"] + chunk, stdout=subprocess.PIPE, stderr=subprocess.PIPE, text=True, errors="replace", env=env)
            for line in p.stderr.splitlines():
                if line.startswith("CLASS "):
                    _, h, nt, tag = line.split(" ", 3)
                    classes[tag] = classes.get(tag, 0) + 1
                    if nt == "1" and h not in seen:
                        seen[h] = tag
        for f in files[:3]:
            if len(samples) < 5:
                with open(f, "rb") as fh:
                    samples.append({"engine": "E3/libFuzzer", "corpus_input_hex": fh.read()[:120].hex()})
    return len(seen), classes, samples


def run_fuzz_part(rep, tier, pid):
    plan = PLAN.get(pid, [])
    if not plan or os.environ.get("VERIF_PKG_OVERRIDE") or os.environ.get("VERIF_SKIP_FUZZ"):
        return
    try:
        bins = build.ensure_fuzz()
    except build.BuildError as e:
        rep.parts["E3"] = {"status": "unavailable", "reason": "fuzz harness does not build against this tree: %s" % str(e)[-400:]}
        print("[%s] E3 part unavailable (fuzz harness does not build); verdict from the other engines" % pid)
        return
    workers = 4 if tier == "quick" else 16
    part = {"status": "ran", "campaigns": []}
    for target, qruns, truns, max_len in plan:
        if target not in bins:
            continue
        runs = qruns if tier == "quick" else truns
        base = os.path.join(build.BUILD, "fuzzrun", "%s-%s-%d" % (pid, target, os.getpid()))
        corpus_src = os.path.join(build.VERIF, "corpus", target)
        with concurrent.futures.ThreadPoolExecutor(workers) as ex:
            futs = [ex.submit(_worker, bins[target], os.path.join(base, "w%d" % i), runs, (rep.seed * 1000 + i + 1) & 0x7FFFFFFF, max_len, corpus_src)
                    for i in range(workers)]
            results = [f.result() for f in futs]
        execs = sum(r["execs"] for r in results)
        rep.evaluations += execs
        rep.classes["E3:%s:executions" % target] = execs
        inconclusive = None
        for r in results:
            if r["rc"] == 0:
                continue
            arts = r["artifacts"]
            bad = [a for a in arts if os.path.basename(a).startswith(("crash-", "leak-"))]
            slow = [a for a in arts if os.path.basename(a).startswith(("timeout-", "oom-", "slow-unit-"))]
            if bad:
                sig = r["signature"] or "crash"
                with open(bad[0], "rb") as fh:
                    data = fh.read()
                tail = "\n".join(l for l in r["stderr"].splitlines() if "ORACLE" in l or "panicked" in l or "ERROR:" in l or "SUMMARY" in l)[-1500:]
                rep.violation(sig, {"engine": "E3", "target": target, "input": data, "seed": r["seed"]},
                              "libFuzzer target %s stopped on a %d-octet input: %s" % (target, len(data), tail))
                part["campaigns"].append({"target": target, "executions": execs, "result": "violation"})
                rep.parts["E3"] = part
                return
            if slow or r["rc"] != 0:
                inconclusive = "libFuzzer target %s ended with status %d (%s)" % (target, r["rc"], ", ".join(os.path.basename(a) for a in arts) or r["stderr"][-300:])
        if inconclusive:
            rep.parts["E3"] = part
            raise core.Inconclusive(inconclusive)
        nt, classes, samples = _classify(bins[target], [r["corpus"] for r in results])
        rep.nontrivial_extra += nt
        for k, v in classes.items():
            rep.classes["E3:%s:%s" % (target, k)] = rep.classes.get("E3:%s:%s" % (target, k), 0) + v
        for s in samples[:2]:
            if len(rep.nt_samples) < 9:
                rep.nt_samples.append(s)
        part["campaigns"].append({"target": target, "workers": workers, "runs_per_worker": runs, "executions": execs,
                                  "distinct_nontrivial_corpus_inputs": nt, "wall_s": round(max(r["wall"] for r in results), 1)})
        shutil.rmtree(base, ignore_errors=True)
    rep.parts["E3"] = part


def replay_input(rep, pid, case):
    """Replay a saved fuzz input (strict: any crash is reported)."""
    bins = build.ensure_fuzz()
    target = case["target"]
    data = case["input"]
    d = os.path.join(build.BUILD, "fuzzrun", "replay")
    os.makedirs(d, exist_ok=True)
    f = os.path.join(d, hashlib.sha1(data).hexdigest()[:12])
    with open(f, "wb") as fh:
        fh.write(data)
    p = subprocess.run([bins[target], "-verbosity=0", f], stdout=subprocess.PIPE, stderr=subprocess.PIPE, text=True, errors="replace", env=_env(), cwd=d)
    if p.returncode != 0:
        rep.violation(signature_from(p.stderr), case, "replay of saved fuzz input on target %s: status %d: %s" % (target, p.returncode, p.stderr[-800:]))
    return p.returncode
