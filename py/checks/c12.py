"""C12 - USM keys are derived exactly as RFC 3414 A.2 prescribes.

Generator: passwords (arbitrary bytes) of lengths {1,2,3,7,8,9,63,64,65,1000,4095,4096,65536,2^19,2^20-1,2^20,2^20+1,
2^20+4097} and random lengths 1..300; engine ids of 0..32 octets; {MD5, SHA-1}; key types {password, master, localized}.
Malformed material: empty password, key lengths 0..64 for master / localized keys, unknown algorithm codes 3..63 and the
undefined type bits 0xC0 - through get_master_key, get_localized_key, the SnmpV3ClientSocket constructor, set_keys and
the User / *Key classes (whose documented padding / truncation is part of the model).
Oracle: hashlib: Ku = H(first 2^20 octets of the repeated password), Kul = H(Ku || engine || Ku).  The key a session
*actually uses* is observed through the HMAC of an emitted message and the decryptability of its payload under the
independently derived keys (privacy key localized with the auth digest).  Malformed input must raise an Exception
(PanicException or a crash is a violation) or, where the Python layer documents padding, behave as the padded key.
"""
import hashlib

from vlib import agent as ag
from vlib import core, drivers, gen, wire
from vlib import refusm as ru

LEVEL = "exploration"
LENS = [1, 2, 3, 7, 8, 9, 63, 64, 65, 1000, 4095, 4096, 65536, 2 ** 19, 2 ** 20 - 1, 2 ** 20, 2 ** 20 + 1, 2 ** 20 + 4097]
ALG = {"md5": 1, "sha1": 2}
HASH = {"md5": hashlib.md5, "sha1": hashlib.sha1}
KS = {"md5": 16, "sha1": 20}


def ref_master(alg, pw):
    n = 1 << 20
    reps = n // len(pw) + 1
    return HASH[alg]((pw * reps)[:n]).digest()


def ref_local(alg, ku, eid):
    return HASH[alg](ku + eid + ku).digest()


def g_password(u):
    k = u.below(8)
    if k <= 4:
        n = u.range(1, 300)
    else:
        n = u.choice(LENS)
    seed = u.take(16)
    if n <= 64:
        return (seed * 5)[:n] if u.bool() else bytes((seed[i % 16] + i) & 0xFF for i in range(n))
    # long passwords: a non-periodic byte pattern (cheap to build, content matters for the 2^20 boundary)
    blk = hashlib.sha256(seed).digest()
    return (blk * (n // 32 + 1))[:n - 1] + b"\x7f"


def build_derive(u):
    alg = u.choice(["md5", "sha1"])
    pw = g_password(u)
    eid = u.take(u.below(33))
    return {"kind": "derive", "alg": alg, "pw": pw, "eid": eid}


def build_session(u):
    cfg = gen.g_cfg(u, versions=("v3",), need_auth=True)
    cfg.engine_id = b"\x80" + u.take(u.range(4, 31))
    cfg.auth_secret = g_password(u)[:300] or b"x"
    cfg.priv_secret = g_password(u)[:300] or b"y"
    cfg.auth_kt = u.choice(["password", "master", "localized"])
    cfg.priv_kt = u.choice(["password", "master", "localized"])
    cfg.shared_key_objects = u.below(3) == 0
    return {"kind": "session", "cfg": cfg, "api": u.choice(["raw", "raw_set_keys", "user"])}


def build_malformed(u):
    where = u.choice(["get_master_key", "get_localized_key", "ctor", "set_keys", "user"])
    alg = u.choice(["md5", "sha1"])
    kt = u.choice(["password", "master", "localized"])
    flaw = u.choice(["empty_password", "key_len", "alg_code", "type_bits", "priv_key_len", "priv_alg_code"])
    return {"kind": "malformed", "where": where, "alg": alg, "kt": kt, "flaw": flaw, "n": u.below(65), "code": u.range(3, 63),
            "priv": u.choice(["des", "aes"])}


def build_case(u):
    k = u.below(8)
    if k <= 2:
        return build_derive(u)
    if k <= 5:
        return build_session(u)
    return build_malformed(u)


def describe(c):
    d = dict(c)
    if "cfg" in d:
        d["_cfg"] = gen.cfg_to_json(d["cfg"])
        d["cfg"] = d["cfg"].describe()
    if "pw" in d and len(d["pw"]) > 400:
        d["pw_len"] = len(d["pw"])
        d["pw_seed"] = d["pw"][:32]
        d["pw"] = b""
    return d


def H(x):
    """hex of a bytes value; repr of anything else (a wrong *type* coming back must not break the report)"""
    return x.hex() if isinstance(x, (bytes, bytearray)) else repr(x)


def check_derive(G, c):
    alg, pw, eid = c["alg"], c["pw"], c["eid"]
    ku = G.fast.get_master_key(ALG[alg], pw)
    want = ref_master(alg, pw)
    if ku != want:
        raise core.Failure("master-key:" + alg, "get_master_key(%s, password of %d octets) = %s, RFC 3414 A.2 gives %s" % (alg, len(pw), H(ku), want.hex()))
    kul = G.fast.get_localized_key(ALG[alg], ku, eid)
    wantl = ref_local(alg, want, eid)
    if kul != wantl:
        raise core.Failure("localized-key:" + alg, "get_localized_key(%s, Ku, engine id of %d octets) = %s, expected %s" % (alg, len(eid), H(kul), wantl.hex()))
    # the class-level helpers are the documented entry points
    K = {"md5": G.user.Md5Key, "sha1": G.user.Sha1Key}[alg]
    if K.get_master_key(pw) != want or K.get_localized_key(want, eid) != wantl:
        raise core.Failure("key-class-helpers", "%s.get_master_key / get_localized_key disagree with the RFC" % K.__name__)


def check_session(G, c, link):
    """Observe the keys a session really uses."""
    cfg = c["cfg"]
    if c["api"] == "user":
        # through gufo.snmp.User / *Key and the sync SnmpSession constructor (no I/O happens before the first request)
        s = drivers.sync_session(G, cfg, link.port, timeout=0.05)
        try:
            s.get("1.3.6.1.2.1.1.1.0")
        except TimeoutError:
            pass
    else:
        if c["api"] == "raw_set_keys":
            other = ag.Cfg("v3", user="tmp", engine_id=cfg.engine_id, auth="md5", auth_kt="localized")
            sock = ag.make_raw(G.fast, other, link.port, 0)
            sock.set_keys(*cfg.raw_args(cfg.engine_id))
        else:
            sock = ag.make_raw(G.fast, cfg, link.port, 0)
        sock.send_get("1.3.6.1.2.1.1.1.0")
    got = link.recv_all()
    if len(got) != 1:
        raise core.Failure("datagram-count", "%d datagrams" % len(got))
    model = wire.SessionModel(cfg)
    m = wire.check_structure(model, ("get", "1.3.6.1.2.1.1.1.0"), got[0])  # decrypts with the independently derived key
    wire.check_mac(model, m, got[0])
    wire.check_priv(model, m)


def expect_refusal(what, fn):
    try:
        fn()
    except Exception:
        return "refused"
    except BaseException as e:  # noqa: BLE001
        raise core.Failure("malformed-key-crash:" + what, "%s raised %s: %s" % (what, type(e).__name__, e))
    return "accepted"


def check_malformed(G, c, link):
    alg, kt, flaw, n = c["alg"], c["kt"], c["flaw"], c["n"]
    code = ALG[alg]
    ktc = {"password": 0, "master": 0x40, "localized": 0x80}[kt]
    eid = gen.ENGINE_IDS[0]
    where = c["where"]
    what = "%s/%s/%s" % (where, flaw, kt)
    addr = "127.0.0.1:%d" % link.port
    if where == "get_master_key":
        if flaw == "alg_code":
            r = expect_refusal(what, lambda: G.fast.get_master_key(c["code"], b"password"))
        else:
            r = expect_refusal(what, lambda: G.fast.get_master_key(code, b""))
        must = True
    elif where == "get_localized_key":
        if flaw == "alg_code":
            r = expect_refusal(what, lambda: G.fast.get_localized_key(c["code"], b"k" * 16, eid))
            must = True
        else:
            key = b"k" * n
            r = expect_refusal(what, lambda: G.fast.get_localized_key(code, key, eid))
            must = n != KS[alg]
            if not must and r != "accepted":
                raise core.Failure("valid-key-refused", "get_localized_key with a %d-octet master key was refused" % n)
    elif where in ("ctor", "set_keys"):
        def make(aalg, akey, palg, pkey):
            if where == "ctor":
                return G.fast.SnmpV3ClientSocket(addr, eid, "u", aalg, akey, palg, pkey, 0, 0, 0, 0)
            s = G.fast.SnmpV3ClientSocket(addr, eid, "u", 0, b"", 0, b"", 0, 0, 0, 0)
            return s.set_keys("u", aalg, akey, palg, pkey)
        pcode = {"des": 1, "aes": 2}[c["priv"]]
        good = b"g" * KS[alg]
        if flaw == "empty_password":
            r = expect_refusal(what, lambda: make(code, b"", 0, b""))
            must = True
        elif flaw == "key_len":
            key = b"k" * n
            r = expect_refusal(what, lambda: make(code | ktc, key, 0, b""))
            # master keys of any size are hashed (the unit tests do so); passwords of any non-zero size are fine
            must = (kt == "localized" and n != KS[alg]) or (kt == "password" and n == 0)
            if kt == "localized" and n == KS[alg] and r != "accepted":
                raise core.Failure("valid-key-refused", "%s: %d-octet localized %s key refused" % (where, n, alg))
        elif flaw == "alg_code":
            r = expect_refusal(what, lambda: make(c["code"] | ktc, good, 0, b""))
            must = True
        elif flaw == "type_bits":
            r = expect_refusal(what, lambda: make(code | 0xC0, good, 0, b""))
            must = True
        elif flaw == "priv_key_len":
            key = b"p" * n
            r = expect_refusal(what, lambda: make(code | 0x80, good, pcode | ktc, key))
            must = (kt == "localized" and n != KS[alg]) or (kt == "password" and n == 0)
        else:
            r = expect_refusal(what, lambda: make(code | 0x80, good, c["code"] | ktc, good))
            must = True
    else:  # user classes: documented padding/truncation of aligned keys
        U = G.user
        K = {"md5": U.Md5Key, "sha1": U.Sha1Key}[alg]
        ktv = {"password": U.KeyType.Password, "master": U.KeyType.Master, "localized": U.KeyType.Localized}[kt]
        key = b"k" * n
        if flaw in ("priv_key_len", "priv_alg_code") and kt != "password":
            # a privacy key given as master / localized key is aligned to the *auth* digest size by User() (documented:
            # "truncates key if it is longer than desired, adds trailing zeroes otherwise"); the session must then encrypt
            # under the key derived from the aligned value
            PK = {"des": U.DesKey, "aes": U.Aes128Key}[c["priv"]]
            akey = bytes(range(1, KS[alg] + 1))
            pkey = bytes((7 * i + 3) & 0xFF for i in range(n))
            try:
                user = U.User("u", auth_key=K(akey, key_type=U.KeyType.Master), priv_key=PK(pkey, key_type=ktv))
            except Exception as e:  # noqa: BLE001
                raise core.Failure("aligned-priv-key-refused", "User(auth master %s, priv %s %s of %d octets) raised %r" % (alg, kt, c["priv"], n, e))
            padded = (pkey + b"\0" * KS[alg])[:KS[alg]]
            if user.priv_key.key != padded or user.get_priv_key() != padded:
                raise core.Failure("priv-key-padding", "privacy %s key of %d octets beside a %s auth key: User holds %s, documented alignment gives %s"
                                   % (kt, n, alg, H(user.get_priv_key()), padded.hex()))
            cfgx = ag.Cfg("v3", user="u", engine_id=eid, auth=alg, priv=c["priv"], auth_kt="master", priv_kt=kt)
            kula = ref_local(alg, akey, eid)
            kulp = padded if kt == "localized" else ref_local(alg, padded, eid)
            cfgx.kul_auth = lambda e: kula
            cfgx.kul_priv = lambda e: kulp
            s = G.sync.SnmpSession("127.0.0.1", port=link.port, user=user, engine_id=eid, timeout=0.05)
            try:
                s.get("1.3.6.1.2.1.1.1.0")
            except TimeoutError:
                pass
            got = link.recv_all()
            if len(got) != 1:
                raise core.Failure("datagram-count", "%d datagrams" % len(got))
            model = wire.SessionModel(cfgx)
            try:
                m = wire.check_structure(model, ("get", "1.3.6.1.2.1.1.1.0"), got[0])
                wire.check_mac(model, m, got[0])
                wire.check_priv(model, m)
            except core.Failure as f:
                raise core.Failure("aligned-priv-key-not-used:" + f.signature, "privacy %s key of %d octets (%s, auth %s): %s" % (kt, n, c["priv"], alg, f.message))
            return "padded"
        if kt == "password":
            def mk():
                s = G.sync.SnmpSession("127.0.0.1", port=link.port, user=U.User("u", auth_key=K(key, key_type=ktv)), engine_id=eid, timeout=0.05)
                return s
            r = expect_refusal(what, mk)
            must = n == 0
        else:
            # padded / truncated to KEY_LENGTH by the key class: the session must behave as the padded key
            ak = K(key, key_type=ktv)
            padded = (key + b"\0" * KS[alg])[:KS[alg]]
            if ak.key != padded:
                raise core.Failure("key-padding", "%s(%d octets, %s).key = %s" % (K.__name__, n, kt, H(ak.key)))
            cfgx = ag.Cfg("v3", user="u", engine_id=eid, auth=alg, auth_kt=kt)
            s = G.sync.SnmpSession("127.0.0.1", port=link.port, user=U.User("u", auth_key=ak), engine_id=eid, timeout=0.05)
            try:
                s.get("1.3.6.1.2.1.1.1.0")
            except TimeoutError:
                pass
            got = link.recv_all()
            kul = padded if kt == "localized" else ref_local(alg, padded, eid)
            m = ag.rb.parse_message(got[0], strict=True)
            s0, s1 = m["auth_span"]
            want = ru.hmac96(alg, kul, got[0][:s0] + b"\0" * 12 + got[0][s1:])
            if m["auth_params"] != want:
                raise core.Failure("padded-key-not-used", "%s key of %d octets: MAC is not under the padded key" % (kt, n))
            return "padded"
    link.recv_all()
    if must and r != "refused":
        raise core.Failure("malformed-key-accepted:" + what, "%s (n=%d code=%d) was accepted" % (what, n, c["code"]))
    return r


def run(rep, tier):
    G = drivers.load()
    link = ag.NbLink()
    rep.rule = ("Hypothesis: (a) derivations: password lengths from the boundary set and 1..300, engine ids 0..32 octets, MD5/SHA-1, "
                "against hashlib; (b) sessions built through the raw constructor, set_keys and User/*Key with all key types, whose "
                "emitted message must verify and decrypt under independently derived keys; (c) malformed material grid. Non-trivial = "
                "password length that does not divide 2^20 or exceeds it, key type != password, or any malformed case; distinct by case.")
    rep.assumptions = ["hashlib MD5/SHA-1", "master keys of non-standard size are legal at the Rust layer (the unit tests use 9-octet ones)"]

    def body(c):
        if c["kind"] == "derive":
            check_derive(G, c)
            n = len(c["pw"])
            nt = (2 ** 20) % n != 0 or n > 2 ** 20
            rep.case(("d", c["alg"], hashlib.sha1(c["pw"]).digest(), c["eid"]), nt,
                     sample={"kind": "derive", "alg": c["alg"], "password_len": n, "engine_id_len": len(c["eid"])},
                     classes=["derive", "pwlen>=2^20" if n >= 2 ** 20 else ("pwlen>=4096" if n >= 4096 else "pwlen<4096")])
        elif c["kind"] == "session":
            check_session(G, c, link)
            cfg = c["cfg"]
            rep.case(("s", cfg.describe(), cfg.auth_secret, cfg.priv_secret, c["api"]), cfg.auth_kt != "password" or cfg.priv_kt != "password",
                     sample={"kind": "session", "cfg": cfg.describe(), "api": c["api"]},
                     classes=["session", "api:" + c["api"], "akt:" + cfg.auth_kt, "priv:%s/%s" % (cfg.priv, cfg.priv_kt)])
        else:
            r = check_malformed(G, c, link)
            rep.case(("m", c["where"], c["flaw"], c["kt"], c["alg"], c["n"], c["code"]), True,
                     sample={"kind": "malformed", "where": c["where"], "flaw": c["flaw"], "kt": c["kt"], "n": c["n"], "outcome": r},
                     classes=["malformed", "where:" + c["where"], "flaw:" + c["flaw"], "outcome:" + r])

    n = 1500 if tier == "quick" else 20000
    try:
        found = core.run_hypothesis(rep, gen.case_strategy(build_case, 256), body, n, describe=describe)
        if not found:
            # keys installed after discovery (real clients, also after a failed first attempt): what such a session signs
            # and encrypts with must be the RFC 3414 derivation for the *agent's* engine id
            from checks import v3hist
            v3hist.discovered_stage(rep, G, "C12", 120 if tier == "quick" else 2500, True, False,
                                    ("mac-wrong", "request-not-well-formed", "privacy-mismatch"))
    finally:
        link.close()


def replay(rep, case, body=None):
    if case.get("_stage") == "discovered":
        from checks import v3hist
        return v3hist.replay_discovered(rep, case)
    G = drivers.load()
    link = ag.NbLink()
    c = dict(case)
    try:
        if c["kind"] == "derive":
            if c.get("pw_len"):
                return
            check_derive(G, c)
        elif c["kind"] == "session":
            c["cfg"] = gen.cfg_from_json(case["_cfg"])
            check_session(G, c, link)
        else:
            check_malformed(G, c, link)
    except core.Failure as f:
        rep.violation(f.signature, case, f.message)
    finally:
        link.close()
