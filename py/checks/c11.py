"""C11 - Encrypted payloads are exactly the scoped PDU under RFC 3414 / RFC 3826.

Generator: histories on one session with privacy: 1..40 steps of {send any request type, receive an
encrypted reply (agent's own salts, arbitrary padding bytes, AES without padding), receive a clear Report,
time out, garbage} x {DES, AES} x {MD5, SHA-1} x key types x boots/time over 0..2^31-1.
Oracle: every emitted msgData is decrypted with the reference cipher (pure-Python DES-CBC / AES-128-CFB,
key localized with the auth digest, IV from the transmitted salt and boots/time): the result must be the
strictly valid expected scoped PDU followed by less than one block of padding.  Conversely every reply the
agent encrypts must be delivered with exactly the model value.
"""
from checks import v3hist
from vlib import core, drivers, gen

LEVEL = "exploration"
REPLIES = ["foreign_report", "reply", "reply_time", "reply_pad", "none", "none", "report", "garbage", "reply"]


def build_case(u):
    cfg = v3hist.g_v3cfg(u, need_priv=True)
    n = u.range(1, 12) if u.below(4) else u.range(12, 40)
    steps = v3hist.g_steps(u, n, REPLIES)
    return {"cfg": cfg, "steps": steps}


ORACLES = {"structure", "priv", "values"}


def run(rep, tier):
    G = drivers.load()
    rep.rule = ("Hypothesis histories of 1..40 steps on one privacy session (send get/get_many/getnext/getbulk/refresh; agent action: "
                "encrypted reply, reply with new boots/time, reply with arbitrary padding and salt, none, clear Report, garbage) x "
                "DES/AES x MD5/SHA-1 x key types. Non-trivial = a send that follows an unanswered send or a clear-text receive on the "
                "same session; distinct by (cfg, steps).")
    rep.assumptions = ["pure-Python DES/AES reference (refusm.py), self-tested on FIPS 81 / SP 800-38A / FIPS 197 vectors"]

    def body(c):
        info = v3hist.execute(G, c["cfg"], c["steps"], ORACLES)
        nt = info["after_unanswered"] > 0 or info["after_clear_recv"] > 0
        rep.case(repr(v3hist.describe(c["cfg"], c["steps"])), nt,
                 sample={"cfg": c["cfg"].describe(), "steps": [[s[1][0], s[2]] for s in c["steps"] if s[0] == "call"][:12], "n": len(c["steps"])},
                 classes=["priv:%s" % c["cfg"].priv, "auth:%s" % c["cfg"].auth, "kt:" + c["cfg"].priv_kt,
                          "len>=12" if len(c["steps"]) >= 12 else "len<12"] + ["action:" + k for k in info["kinds"]])
        rep.count("messages_checked", info["requests"])
        rep.count("sends_after_unanswered", info["after_unanswered"])

    n = 1500 if tier == "quick" else 30000
    if core.run_hypothesis(rep, gen.case_strategy(build_case, 4096), body, n,
                           describe=lambda c: v3hist.describe(c["cfg"], c["steps"])):
        return
    # sessions of the real clients that install their keys after discovery: every later request must be encrypted
    # exactly as the statement says
    v3hist.discovered_stage(rep, G, "C11", 120 if tier == "quick" else 2500, True, True,
                            ("priv-flag-clear", "privacy-mismatch", "des-length", "padding-too-long", "flags", "request-not-well-formed"))


def replay(rep, case, body=None):
    if case.get("_stage") == "discovered":
        return v3hist.replay_discovered(rep, case)
    G = drivers.load()
    cfg, steps = v3hist.undescribe(case)
    try:
        v3hist.execute(G, cfg, steps, ORACLES)
    except core.Failure as f:
        rep.violation(f.signature, case, f.message)
