"""C13 - Engine discovery and time sync follow the agent.

Generator: USM engine personalities (engine id 5..32 octets, boots/time 0..2^31-1 changing on every reply incl.
1-octet -> 4-octet width changes; the discovery Report may carry any contextEngineID) x {no auth, MD5, SHA-1} x
{none, DES, AES} x {password, master, localized} x {engine id given, discovered} x {`with SnmpSession`, explicit
refresh(), no refresh} x {sync, async}, followed by 1..6 requests; replies carrying a *different* engine id are
injected before the genuine ones (they must be dropped, not adopted).
Oracle (model of the session's view): after each accepted message the model stores (engine id once, boots, time);
every subsequent request's USM header must carry exactly those, must verify (hmac/hashlib) and decrypt (reference
cipher) under keys localized to the learned engine id; the first discovery probe has empty engine id / user,
reportable flag, no varbinds; get_engine_id() equals the agent's.
"""
from vlib import agent as ag
from vlib import core, drivers, gen, wire
from vlib import refber as rb

LEVEL = "exploration"
TIMES = [(0, 0), (1, 1), (5, 127), (5, 128), (255, 256), (3, 65535), (3, 65536), (2 ** 31 - 1, 2 ** 31 - 1), (7, 2 ** 24 + 1),
         (128, 32767), (129, 32768), (0, 2 ** 31 - 1), (2 ** 31 - 1, 0)]
FOREIGN = bytes.fromhex("80000009030011223344")


def build_case(u, need_auth=False, need_priv=False, force_discovered=False):
    cfg = gen.g_cfg(u, versions=("v3",), need_auth=need_auth, need_priv=need_priv)
    cfg.shared_key_objects = u.below(4) == 0
    n = u.range(5, 32)
    engine = b"\x80" + u.take(n - 1)
    discovered = u.bool() or force_discovered
    cfg.engine_id = b"" if discovered else engine
    mode = u.choice(["with", "refresh"]) if discovered else u.choice(["with", "refresh", "none"])
    driver = u.choice(["sync", "async"])
    nreq = u.range(1, 6)
    reqs = []
    for _ in range(nreq):
        op = u.choice(["get", "get_many", "getnext1", "getbulk1"])
        # otherwise matching replies that must be rejected *and must not move the session's view of boots/time*:
        # from a foreign engine, below the session's security level (auth flag clear / sent in clear), or with a bad MAC.
        # With only=True nothing acceptable follows, the call times out, and the next request shows what was adopted.
        # wrong_rid: everything matches (msgID, user, engine, security level, MAC) except the PDU's request-id
        inject = (None, None, "wrong_rid", "foreign_report", "foreign", "unauth", "clear", "badmac")[u.below(8)]
        reqs.append({"op": op, "foreign": inject == "foreign", "inject": inject, "only": inject is not None and (u.below(4) == 0 or inject == "wrong_rid")})
    times = [TIMES[u.below(len(TIMES))] if u.below(3) else (u.bits(4) >> 1, u.bits(4) >> 1) for _ in range(nreq + 3)]
    ctx = (None, None, b"", b"\x80\x00\x00\x01ctx")[u.below(4)]  # contextEngineID of the Reports: None = the agent's engine id
    # the first discovery datagram may be lost: refresh() then times out and the application retries it on the same session
    lost_probe = discovered and mode == "refresh" and u.below(3) == 0
    # ... or it is answered by something undecodable: refresh() then fails with SnmpDecodeError and is retried likewise
    probe_fault = u.choice(["lost", "garbage"]) if lost_probe else None
    # a well-formed datagram from some other engine (other msgID) may reach the session before the agent's first Report
    pre_stray = discovered and u.below(4) == 0
    return {"cfg": cfg, "engine": engine, "discovered": discovered, "mode": mode, "driver": driver, "reqs": reqs, "times": times, "report_ctx": ctx,
            "lost_probe": lost_probe, "probe_fault": probe_fault, "pre_stray": pre_stray}


def describe(c):
    d = {k: c.get(k) for k in ("engine", "discovered", "mode", "driver", "reqs", "times", "report_ctx", "lost_probe", "probe_fault", "pre_stray")}
    d["cfg"] = c["cfg"].describe()
    d["_cfg"] = gen.cfg_to_json(c["cfg"])
    return d


CALLS = {"get": ("get", "1.3.6.1.2.1.1.3.0"), "get_many": ("get_many", ["1.3.6.1.2.1.1.3.0", "1.3.6.1.2.1.1.5.0"]),
         "getnext1": ("getnext1", "1.3.6.1.2.1.2"), "getbulk1": ("getbulk1", "1.3.6.1.2.1.2", 4)}


def execute(G, c, slow=False):
    cfg, E = c["cfg"], c["engine"]
    default_cfg = ag.Cfg("v3", user="", engine_id=b"")
    post_cfg = gen.cfg_from_json(gen.cfg_to_json(cfg))
    post_cfg.engine_id = E
    pre = wire.SessionModel(default_cfg, b"")
    post = wire.SessionModel(post_cfg, E)
    # Requests are matched in order; probes (GET with no varbinds, reportable) are recognised by their content, so the
    # check does not depend on how many refresh exchanges the client chooses to make - only on what each message carries.
    req_plan = [(CALLS[r["op"]], r) for r in c["reqs"]]
    st = {"i": 0, "t": 0, "req": 0, "probes": 0, "known": not c["discovered"]}
    problems = []
    seen = {"widths": set()}
    kinds = []
    expect_timeout = set()

    def handler(d):
        i = st["i"]
        st["i"] += 1
        try:
            raw = rb.parse_message(d, strict=False, data=False)
        except rb.BerError as e:
            problems.append(core.Failure("request-not-well-formed", "message #%d: %s" % (i, e)))
            return []
        # a probe: the client does not know the engine id yet, or sends the reportable empty GET
        lenient = None
        try:
            lenient = ag.decode_request(post_cfg if st["known"] else default_cfg, d, strict=False)
        except rb.BerError:
            pass
        is_probe = lenient is not None and lenient.get("pdu_tag") == rb.PDU_GET and not lenient.get("varbinds")
        if not st["known"] and raw["engine_id"] == b"":
            is_probe = True
        if is_probe and c.get("lost_probe") and not st.get("dropped"):
            st["dropped"] = True
            kinds.append("probe0-lost")
            try:
                wire.check_structure(pre, ("refresh",), d)
            except core.Failure as f:
                problems.append(f)
            return [b"\x30\x05\x02\x01\x03\x04\x7f"] if c.get("probe_fault") == "garbage" else []
        if is_probe:
            kind = "probe" if st["known"] else "probe0"
            call = ("refresh",)
        else:
            kind = "req"
            if st["req"] >= len(req_plan):
                problems.append(core.Failure("unexpected-message", "message #%d is a request beyond the %d calls made: %s" % (i, len(req_plan), d.hex())))
                return []
            call = req_plan[st["req"]][0]
        kinds.append(kind)
        model = pre if kind == "probe0" else post
        try:
            m = wire.check_structure(model, call, d)
            wire.check_mac(model, m, d)
            wire.check_priv(model, m)
        except core.Failure as f:
            f.message = "message #%d (%s, history %r): %s" % (i, kind, kinds, f.message)
            problems.append(f)
            return []
        b, t = c["times"][st["t"] % len(c["times"])]
        st["t"] += 1
        seen["widths"].add((len(rb.int_content(b)), len(rb.int_content(t))))
        outs = []
        if kind in ("probe0", "probe"):
            st["probes"] += 1
            rcfg = default_cfg if kind == "probe0" else post_cfg
            rep_ = ag.build_report(rcfg, m, E, b, t)
            if c["report_ctx"] is not None:
                # same Report, other contextEngineID (legal; not a credential)
                vb = [rb.varbind(rb.enc_oid((1, 3, 6, 1, 6, 3, 15, 1, 1, 4, 0)), rb.tlv(rb.T_COUNTER32, rb.uint_content(1)))]
                p = rb.pdu(rb.PDU_REPORT, m.get("request_id", 0), 0, 0, vb)
                usm = rb.usm_params(E, b, t, m["user"], b"", b"")
                rep_ = rb.msg_v3(m["msg_id"], 65507, 0, 3, usm, rb.scoped_pdu(c["report_ctx"], b"", p))
            if kind == "probe0" and c.get("pre_stray") and not st.get("strayed"):
                st["strayed"] = True
                sm = dict(m)
                sm["msg_id"] = (m["msg_id"] + 1) & 0x7FFFFFFF
                outs.append(ag.build_report(rcfg, sm, FOREIGN, b ^ 1, t ^ 1))  # not for this request: must be skipped, nothing learned
            outs.append(rep_)
            pre.accept(E, b, t)
            post.accept(E, b, t)
            st["known"] = True
            return outs
        r = req_plan[st["req"]][1]
        idx = st["req"]
        st["req"] += 1
        name = (m["varbinds"][0][0] if m["varbinds"] else (1, 3)) + (1,)
        vbs = [rb.varbind(rb.enc_oid(name), rb.enc_int(1000 + idx))]
        inject = r.get("inject")
        if inject in ("unauth", "clear", "badmac") and not post_cfg.auth:
            inject = None  # nothing to reject on a noAuth session
        if inject == "clear" and not post_cfg.priv:
            inject = "unauth"
        bad = [rb.varbind(rb.enc_oid(name), rb.enc_int(666))]
        fb, ft = b ^ 0x55, t ^ 0x33
        if inject == "foreign_report":
            # a Report from another engine (matching msgID and user): the session knows its engine id and must keep it
            outs.append(ag.build_report(post_cfg, m, FOREIGN, fb, ft))
        elif inject == "foreign":
            fcfg = gen.cfg_from_json(gen.cfg_to_json(post_cfg))
            outs.append(ag.build_reply(fcfg, m, bad, engine_id=FOREIGN, boots=fb, time=ft))
        elif inject == "unauth":
            outs.append(ag.build_reply(post_cfg, m, bad, boots=fb, time=ft, mac="absent", encrypt=False, flags=0))
        elif inject == "clear":
            outs.append(ag.build_reply(post_cfg, m, bad, boots=fb, time=ft, encrypt=False, flags=1))
        elif inject == "badmac":
            outs.append(ag.build_reply(post_cfg, m, bad, boots=fb, time=ft, mac="zero"))
        elif inject == "wrong_rid":
            outs.append(ag.build_reply(post_cfg, m, bad, boots=fb, time=ft, request_id=(m["request_id"] ^ 0x1111) & 0x7FFFFFFF))
        if inject is not None and r.get("only"):
            expect_timeout.add(idx)
            return outs  # nothing acceptable follows: the call must time out and the view must stay as it was
        outs.append(ag.build_reply(post_cfg, m, vbs, boots=b, time=t))
        post.accept(E, b, t)
        return outs

    plan = [("req", cl_, r_) for cl_, r_ in req_plan]
    calls = [p[1] for p in plan if p[0] == "req"]
    # calls that are *expected* to time out (reject-only injections, lost probe) make a short timeout attractive; every other
    # case gets a generous one, and a short-timeout case that fails on a timeout is re-run slowly before it is reported
    needs_timeout = uses_short_timeout(c)
    kw = {"timeout": (2.5 if slow else 0.15) if needs_timeout else 3.0, "session_kw": {}}
    if c["mode"] == "with":
        kw["use_with"] = True
        run_calls = calls
    elif c["mode"] == "refresh":
        run_calls = ([("refresh",)] if c.get("lost_probe") else []) + [("refresh",)] + calls
    else:
        run_calls = calls
    # the high-level constructors take the engine id the caller knows (none when discovering); localized keys are for E
    hl_cfg = gen.cfg_from_json(gen.cfg_to_json(cfg))
    outs = run_with_user(G, c, hl_cfg, E, run_calls, handler, kw)
    if problems:
        raise problems[0]
    info = "%s discovered=%s mode=%s driver=%s" % (post_cfg.describe(), c["discovered"], c["mode"], c["driver"])
    if st["req"] != len(req_plan):
        raise core.Failure("message-count", "%s: %d of %d requests seen (message kinds %r); outcomes %r" % (info, st["req"], len(req_plan), kinds, outs))
    if c["discovered"] and st["probes"] < 1:
        raise core.Failure("no-discovery-probe", "%s: engine id unknown yet no probe was sent (%r)" % (info, kinds))
    skip = (2 if c.get("lost_probe") else 1) if c["mode"] == "refresh" else 0
    first_exc = G.SnmpDecodeError if c.get("probe_fault") == "garbage" else TimeoutError
    if c.get("lost_probe") and not (outs[0].kind == "exc" and isinstance(outs[0].exc, first_exc)):
        raise core.Failure("lost-probe-outcome", "%s: refresh() whose discovery datagram was lost gave %r" % (info, outs[0]))
    if c["mode"] == "refresh" and outs[skip - 1].kind != "ok":
        raise core.Failure("refresh-failed", "%s: refresh() gave %r (message kinds %r)" % (info, outs[skip - 1], kinds))
    res = outs[skip:]
    for k, o in enumerate(res):
        want = 1000 + k
        if k in expect_timeout:
            if not (o.kind == "exc" and isinstance(o.exc, TimeoutError)):
                sig = "rejected-reply-delivered" if (o.kind == "ok" and "666" in repr(o.value)) else "request-failed"
                raise core.Failure(sig, "%s: request #%d was answered only by a reply that must be rejected (%s); outcome %r" % (info, k, c["reqs"][k]["inject"], o))
            continue
        ok = o.kind == "ok" and (o.value == want or (isinstance(o.value, dict) and list(o.value.values()) == [want])
                                 or (isinstance(o.value, tuple) and o.value[1] == want))
        if not ok:
            sig = "foreign-engine-reply-delivered" if (o.kind == "ok" and "666" in repr(o.value)) else "request-failed"
            raise core.Failure(sig, "%s: request #%d (%s) gave %r, expected value %d" % (info, k, req_plan[k][0][0], o, want))
    return st["i"], seen["widths"]


def uses_short_timeout(c):
    return bool(c.get("lost_probe")) or any(r.get("only") and r.get("inject") for r in c["reqs"])


def execute_confirmed(G, c, rep=None):
    """execute(), and - for the cases that run with the short session timeout because they contain calls that are expected
    to time out - a second, slow run before any failure is believed: on a loaded machine a genuine reply can miss a 0.15 s
    timeout, after which the session legitimately keeps its older view and every later message looks wrong to the model."""
    try:
        return execute(G, c)
    except core.Failure:
        if not uses_short_timeout(c):
            raise
        if rep is not None:
            rep.count("short_timeout_failures_rerun_slowly")
        return execute(G, c, slow=True)


def run_with_user(G, c, hl_cfg, E, run_calls, handler, kw):
    """Like drivers.run_calls but the User's localized keys are derived for the agent's engine id E and
    get_engine_id() is checked at the end."""
    cfg = hl_cfg
    orig_make_user = cfg.make_user

    def make_user(mod, engine_id=None):
        return orig_make_user(mod, E)

    cfg.make_user = make_user
    checked = {}
    orig_sync, orig_async = drivers.sync_session, drivers.async_session

    def wrap(factory):
        def f(G_, cfg_, port, timeout=1.0, engine_id=None, **k):
            s = factory(G_, cfg_, port, timeout, engine_id, **k)
            checked["session"] = s
            return s
        return f

    drivers.sync_session, drivers.async_session = wrap(orig_sync), wrap(orig_async)
    try:
        outs = drivers.run_calls(G, c["driver"], cfg, run_calls, handler, **kw)
    finally:
        drivers.sync_session, drivers.async_session = orig_sync, orig_async
    s = checked.get("session")
    if s is not None and all(o.kind == "ok" for o in outs[(1 if c.get("lost_probe") else 0):]) and not any(r.get("only") for r in c["reqs"]):
        try:
            got = s.get_engine_id()
        except Exception as e:  # noqa: BLE001
            raise core.Failure("get-engine-id-raised", repr(e))
        if (c["discovered"] or c["cfg"].engine_id) and got != E:
            raise core.Failure("engine-id-not-learned", "get_engine_id() = %r, agent's engine id is %r" % (got, E))
    return outs


def run(rep, tier):
    G = drivers.load()
    rep.rule = ("Hypothesis agent identities and histories: engine id 5..32 octets; {discovered, given} x {with, refresh(), none} x "
                "{sync, async} x auth x priv x key types; boots/time change on every reply over all INTEGER widths; Reports with own / "
                "empty / foreign contextEngineID; injected replies that must be rejected without moving the view (foreign engine, foreign Report, below the security level, bad MAC - also as the only answer); first discovery probe lost and refresh() retried. Non-trivial = history with discovery plus >=2 later "
                "replies whose boots/time differ; distinct by the whole case.")
    rep.assumptions = ["keys of type 'localized' are derived by the caller for the agent's engine id", "reference crypto refusm.py"]

    def body(c):
        nmsg, widths = execute_confirmed(G, c, rep)
        nt = c["discovered"] and len(c["reqs"]) >= 2
        rep.case(repr(describe(c)), nt,
                 sample={"cfg": c["cfg"].describe(), "engine": c["engine"].hex(), "discovered": c["discovered"], "mode": c["mode"],
                         "driver": c["driver"], "reqs": [r["op"] for r in c["reqs"]], "messages": nmsg},
                 classes=["discovered" if c["discovered"] else "engine_given", "mode:" + c["mode"], "driver:" + c["driver"],
                          "auth:%s" % c["cfg"].auth, "priv:%s" % c["cfg"].priv, "kt:" + c["cfg"].auth_kt,
                          "ctx:" + ("own" if c["report_ctx"] is None else ("empty" if c["report_ctx"] == b"" else "foreign"))]
                 + (["first_probe:" + (c.get("probe_fault") or "lost")] if c.get("lost_probe") else []) + (["stray_before_first_report"] if c.get("pre_stray") else [])
                 + ["inject:%s%s" % (r["inject"], "/only" if r["only"] else "") for r in c["reqs"] if r.get("inject")])
        rep.count("messages_checked", nmsg)

    n = 600 if tier == "quick" else 12000
    core.run_hypothesis(rep, gen.case_strategy(build_case, 1024), body, n, describe=describe)


def replay(rep, case, body=None):
    G = drivers.load()
    c = dict(case)
    c["cfg"] = gen.cfg_from_json(case["_cfg"])
    c["times"] = [tuple(t) for t in case["times"]]
    try:
        execute_confirmed(G, c)
    except core.Failure as f:
        rep.violation(f.signature, case, f.message)
