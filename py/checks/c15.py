"""C15 - Everything the library encodes, it decodes back unchanged and minimally.

Engine E2 (proptest inside a mirror of the crate, rs/harness/props.rs):
  * i64: exhaustive for every value of 1..2 (quick) / 1..3 (thorough) content octets, +-2^11 (quick) / +-2^16 (thorough)
    neighbourhoods of every +-2^(8k-1), +-2^(8k) boundary, i64::MIN/MAX, random elsewhere;
  * OIDs from the must-accept class up to 128 arcs; NULL; OCTET STRING fields of 0..4000 octets (all three length forms);
  * Get / GetNext / GetBulk messages for v1/v2c/v3 with 0..80 varbinds, community / user / engine id of 0..300 octets.
Oracle: encode(x) == an independent minimal X.690 encoder (byte equality), decode(encode(x)) == x with nothing left over.
"""
from checks import rsutil

LEVEL = "exploration"


def run(rep, tier):
    rep.rule = ("proptest + exhaustive ranges (see module docstring). Non-trivial = negative INTEGER or one within 2^16 of a power-of-256 "
                "boundary, OID with a multi-octet arc, OCTET STRING / message using a long-form length; distinct by value hash.")
    rep.assumptions = ["independent encoder rs/harness/refenc.rs", "request-id / msgID / boots / time restricted to 0..2^31-1 (the values the library generates)"]
    rsutil.run_rs_part(rep, tier, "C15", required=True)


def replay(rep, case, body=None):
    # E2 failures are deterministic functions of (seed, tier): re-run the runner
    rsutil.run_rs_part(rep, case.get("tier", "quick"), "C15", required=True)
