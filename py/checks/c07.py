"""C07 - get / get_many results and SNMP exceptions map as documented.

Generator: replies with 0..6 varbinds, any mix of data values, NULL and the
three exception values, arbitrary (also duplicate) OIDs; a v3 Report in place of
the response; no reply at all.  x {get, get_many} x {v1, v2c, v3} x {nb, sync, async}.
Oracle: the table in the property statement.
"""
from vlib import agent as ag
from vlib import core, drivers, gen
from vlib import refber as rb

LEVEL = "exploration"


def build_case(u):
    cfg = gen.g_cfg(u)
    op = u.choice(["get", "get_many"])
    driver = ("nb", "nb", "nb", "nb", "nb", "sync", "async", "nb")[u.below(8)]
    kind = ("reply", "reply", "reply", "reply", "reply", "reply", "report", "silent")[u.below(8)]
    if kind == "report" and cfg.version != "v3":
        kind = "reply"
    n = (0, 1, 1, 1, 2, 3, 4, 6)[u.below(8)]
    names, vals = [], []
    for _ in range(n):
        if names and u.below(5) == 0:
            names.append(names[u.below(len(names))])  # duplicate OID
        else:
            names.append(gen.g_oid(u, 2, 10))
        vals.append(gen.g_any_value(u))
    # history: the tested call may be preceded by an ordinary exchange that leaves the session with large boots/time
    return {"cfg": cfg, "op": op, "driver": driver, "kind": kind, "names": names, "vals": vals, "warmup": u.below(3) == 0,
            # how many OIDs get_many() asks for is independent of what the reply carries (1: the degenerate single-OID call)
            "nask": (1, 2, 2, 3, 1, 5, 2, 0)[u.below(8)],
            # request-id carried by a Report: the request's, or what an agent sends when it could not read it
            # (RFC 3412 7.1 3c: 2^31-1; some agents: 0)
            "report_rid": (None, None, 2147483647, 0, 1, None, 2147483647, 0)[u.below(8)]}


def describe(c):
    return {"cfg": c["cfg"].describe(), "_cfg": gen.cfg_to_json(c["cfg"]), "op": c["op"], "driver": c["driver"], "kind": c["kind"],
            "_names": [list(n) for n in c["names"]], "_tlvs": [v.tlv for v in c["vals"]], "_kinds": [v.kind for v in c["vals"]],
            "_pys": [({"float": repr(v.py)} if isinstance(v.py, float) else v.py) for v in c["vals"]], "warmup": c.get("warmup", False), "nask": c.get("nask", 2), "report_rid": c.get("report_rid")}


def expected(G, c):
    """Returns ('value', v) | ('exc', class-or-tuple) | ('dict', [(key, Val)])"""
    if c["kind"] == "silent":
        return ("exc", (BlockingIOError,) if c["driver"] == "nb" else (TimeoutError,))
    if c["kind"] == "report":
        return ("exc", (G.SnmpAuthError,))
    vals = c["vals"]
    if c["op"] == "get":
        if len(vals) == 0:
            return ("value", None)
        if len(vals) == 1:
            v = vals[0]
            if v.kind == "null":
                return ("value", None)
            if not v.is_data():
                return ("exc", (G.NoSuchInstance,))
            return ("val", v)
        return ("exc", (G.SnmpError,))
    d = {}
    for n, v in zip(c["names"], vals):
        if v.is_data():
            d[rb.oid_text(n)] = v  # later duplicate wins but keeps first position (dict semantics)
    return ("dict", list(d.items()))


def execute(G, c):
    cfg = c["cfg"]
    vbs = [rb.varbind(rb.enc_oid(n), v.tlv) for n, v in zip(c["names"], c["vals"])]

    st = {"n": 0}
    warm = bool(c.get("warmup"))

    def handler(d):
        req = ag.decode_request(cfg, d, strict=False)
        st["n"] += 1
        if warm and st["n"] == 1:
            kw = {"boots": 1000, "time": 500000} if cfg.version == "v3" else {}
            return [ag.build_reply(cfg, req, [rb.varbind(rb.enc_oid((1, 3, 6, 1, 2, 1, 1, 1, 0)), rb.enc_int(1))], **kw)]
        if c["kind"] == "silent":
            return []
        if c["kind"] == "report":
            rq = dict(req)
            if c.get("report_rid") is not None:
                rq["request_id"] = c["report_rid"]
            return [ag.build_report(cfg, rq, req["engine_id"], 7, 1234)]
        return [ag.build_reply(cfg, req, vbs)]

    ask = ["1.3.6.1.2.1.1.%d.0" % (i + 1) for i in range(c.get("nask", 2))]
    call = ("get", "1.3.6.1.2.1.1.1.0") if c["op"] == "get" else ("get_many", ask)
    calls = ([("get", "1.3.6.1.2.1.1.1.0")] if warm else []) + [call]
    outs = drivers.run_calls(G, c["driver"], cfg, calls, handler, timeout=0.12 if c["kind"] == "silent" else 5.0)
    if warm and not (outs[0].kind == "ok" and outs[0].value == 1):
        raise core.Failure("warmup-exchange-failed", "plain get before the tested call gave %r over %s" % (outs[0], cfg.describe()))
    out = outs[-1]
    exp = expected(G, c)
    shape = "%s/%s/%s" % (c["op"], c["kind"], ",".join(v.kind for v in c["vals"]))
    info = "%s over %s [%s] reply=%s -> %r" % (c["op"], cfg.describe(), c["driver"], shape, out)
    if exp[0] == "exc":
        if out.kind != "exc" or not isinstance(out.exc, exp[1]) or not isinstance(out.exc, Exception):
            raise core.Failure("expected-exception:%s:%s:%s" % (c["op"], c["kind"], exp[1][0].__name__), "expected %s; %s" % (exp[1][0].__name__, info))
        return
    if out.kind != "ok":
        raise core.Failure("unexpected-exception:%s:%s" % (c["op"], type(out.exc).__name__), info)
    if exp[0] == "value":
        if out.value is not exp[1]:
            raise core.Failure("value:%s" % c["op"], "expected %r; %s" % (exp[1], info))
    elif exp[0] == "val":
        if not gen.py_equal(exp[1].py, out.value):
            raise core.Failure("value:%s" % c["op"], "expected %r; %s" % (exp[1].py, info))
    else:
        got = out.value
        # the statement fixes the *set* of keys, not their order
        if not isinstance(got, dict) or sorted(got.keys()) != sorted(k for k, _ in exp[1]):
            raise core.Failure("dict-keys", "expected keys %r; %s" % ([k for k, _ in exp[1]], info))
        for k, v in exp[1]:
            if not gen.py_equal(v.py, got[k]):
                raise core.Failure("dict-value", "expected [%s]=%r; %s" % (k, v.py, info))


def run(rep, tier):
    G = drivers.load()
    rep.rule = ("Hypothesis replies: 0..6 varbinds, any mix of data values / NULL / noSuchObject / noSuchInstance / endOfMibView, "
                "duplicate OIDs, v3 Report instead of response, no reply, optionally after a warm-up exchange that leaves large boots/time; x get/get_many x v1/v2c/v3(all levels) x nb/sync/async. "
                "Non-trivial = reply mixes >=2 value kinds, or is the Report / empty / multi-varbind / silent case; distinct by "
                "(cfg, op, kind, names, value TLVs).")

    def body(c):
        execute(G, c)
        kinds = set(("data" if v.is_data() else v.kind) for v in c["vals"])
        nt = len(kinds) >= 2 or c["kind"] != "reply" or len(c["vals"]) != 1
        rep.case((c["cfg"].describe(), c["op"], c["kind"], tuple(c["names"]), tuple(v.tlv for v in c["vals"])), nt,
                 sample={"cfg": c["cfg"].describe(), "op": c["op"], "driver": c["driver"], "kind": c["kind"],
                         "varbinds": [[rb.oid_text(n), v.kind] for n, v in zip(c["names"], c["vals"])]},
                 classes=["op:" + c["op"], "kind:" + c["kind"], "nask:%d" % c.get("nask", 2), "driver:" + c["driver"], "nvb:%d" % min(len(c["vals"]), 3),
                          "ver:" + c["cfg"].version] + ["has:" + k for k in kinds])

    n = 4000 if tier == "quick" else 100000
    core.run_hypothesis(rep, gen.case_strategy(build_case, 1024), body, n, describe=describe)


def replay(rep, case, body=None):
    G = drivers.load()
    vals = [gen.Val(k, (float(p["float"]) if isinstance(p, dict) and "float" in p else p), t)
            for k, p, t in zip(case["_kinds"], case["_pys"], case["_tlvs"])]
    c = {"cfg": gen.cfg_from_json(case["_cfg"]), "op": case["op"], "driver": case["driver"], "kind": case["kind"],
         "names": [tuple(n) for n in case["_names"]], "vals": vals, "warmup": case.get("warmup", False), "nask": case.get("nask", 2), "report_rid": case.get("report_rid")}
    try:
        execute(G, c)
    except core.Failure as f:
        rep.violation(f.signature, case, f.message)
