"""C09 - Every outgoing authenticated message carries a correct HMAC-96.

Generator: v3 histories (engine-id lengths 5..32, user-name lengths 0..32, boots/time of every
INTEGER width, request sizes that move the outer lengths across 127/128 and 255/256 so the
auth-parameter offset varies) x {MD5, SHA-1, none} x {none, DES, AES} x key types, interleaved
with receives on pooled buffers.
Oracle: hmac/hashlib recomputation over the message with the field zeroed, under the key localized
(independently) to the engine id in the message; without a key: field empty and flag clear.
"""
from checks import v3hist
from vlib import core, drivers, gen

LEVEL = "exploration"
REPLIES = ["foreign_report", "reply", "reply", "reply_time", "reply_time", "none", "report", "garbage", "reply_pad"]


def build_case(u):
    cfg = v3hist.g_v3cfg(u)
    steps = v3hist.g_steps(u, u.range(1, 10), REPLIES)
    return {"cfg": cfg, "steps": steps}


def run(rep, tier):
    G = drivers.load()
    rep.rule = ("Hypothesis v3 histories of 1..10 requests (get/get_many up to 40 oids/getnext/getbulk/refresh) with replies that "
                "move boots/time through all INTEGER widths; engine id 5..32 (sometimes up to 256) octets, user name 0..32 (sometimes up to 300) octets, sessions keyed by the constructor or by set_keys(), foreign Reports interleaved, MD5/SHA-1/none x "
                "none/DES/AES x key types. Every emitted datagram's MAC is recomputed with hmac/hashlib. Non-trivial = message with a "
                "long-form length before the auth field or sent after a prior send+receive; distinct by (cfg, steps).")
    rep.assumptions = ["hashlib/hmac and the RFC 3414 A.2 key derivation in refusm.py (checked on the RFC vectors at import)"]

    def body(c):
        info = v3hist.execute(G, c["cfg"], c["steps"], {"mac"})
        nt = info["long_form"] > 0 or info["requests"] >= 2
        rep.case(repr(v3hist.describe(c["cfg"], c["steps"])), nt,
                 sample={"cfg": c["cfg"].describe(), "steps": [[s[1][0], s[2]] if s[0] == "call" else ["set_keys"] for s in c["steps"]]},
                 classes=["auth:%s" % c["cfg"].auth, "priv:%s" % c["cfg"].priv, "kt:" + c["cfg"].auth_kt,
                          "eid_len:%d" % (len(c["cfg"].engine_id) // 8 * 8), "long_form_before_auth" if info["long_form"] else "short_forms"])
        rep.count("messages_checked", info["requests"])

    n = 2000 if tier == "quick" else 100000
    if core.run_hypothesis(rep, gen.case_strategy(build_case, 4096), body, n,
                           describe=lambda c: v3hist.describe(c["cfg"], c["steps"])):
        return
    # sessions of the real clients that install their keys after discovery: every later request must be signed
    v3hist.discovered_stage(rep, G, "C09", 120 if tier == "quick" else 2500, True, False,
                            ("auth-flag-clear", "mac-", "flags", "user-name"))


def replay(rep, case, body=None):
    if case.get("_stage") == "discovered":
        return v3hist.replay_discovered(rep, case)
    G = drivers.load()
    cfg, steps = v3hist.undescribe(case)
    try:
        v3hist.execute(G, cfg, steps, {"mac"})
    except core.Failure as f:
        rep.violation(f.signature, case, f.message)
