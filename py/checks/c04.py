"""C04 - Only the reply to the outstanding request is ever delivered.

Generator: scripts of 1..4 consecutive requests on one session; for request k
the agent emits a burst built from the true replies to requests <= k, each
passed through a fault (deliver, drop, duplicate, hold until the next request,
reorder, rewrite request-id (incl. ids that differ only above bit 31) / community / version / msgID / user / engine id,
truncate).
Oracle (reference FIFO model): the client's socket queue is the concatenation
of the bursts; call k consumes datagrams in order, each classified by the
*reference* decoder using the ids seen on the wire for request k:
  not decodable as the session's version -> SnmpDecodeError ends the call;
  credentials + msgID match and request-id = id(k) -> delivered (value must be that datagram's);
  otherwise skipped.  Queue exhausted -> BlockingIOError (nb) / TimeoutError.
"""
from vlib import agent as ag
from vlib import core, drivers, gen
from vlib import refber as rb

LEVEL = "fault_enumeration"

FAULTS = ["deliver", "deliver", "deliver", "dup", "hold", "rid+1", "rid-1", "rid_rand", "rid_other", "rid_wide", "community", "version",
          "msgid", "msgid_wide", "user", "engine", "near", "truncate", "drop", "report_stale", "echo_req"]
# ids that agree with the real one in their low 31/32 bits or differ only in width (5..8 content octets)
WIDE = [1 << 32, -(1 << 32), 5 << 40, 1 << 31, -(1 << 31), 1 << 62, -(1 << 63), 3 << 32, (1 << 32) + (1 << 31)]
BASE = (1, 3, 6, 1, 2, 1, 7)
OTHER_ENGINE = bytes.fromhex("80001f88801122334455")


def build_case(u):
    cfg = gen.g_cfg(u)
    driver = "nb" if u.below(20) < 17 else u.choice(["sync", "async", "async"])
    nreq = u.range(1, 4)
    ops_all = ["get", "get_many", "getnext1", "getbulk1"] if cfg.version != "v1" else ["get", "get_many", "getnext1"]
    reqs = []
    for k in range(nreq):
        op = u.choice(ops_all)
        nem = u.below(5)
        ems = []
        for _ in range(nem):
            src = k if u.below(4) else u.below(k + 1)
            f = u.choice(FAULTS)
            ems.append((src, f, u.bits(2)))
        # most scripts should also contain the true reply somewhere
        if u.below(4):
            ems.insert(u.below(len(ems) + 1), (k, "deliver", 0))
        reqs.append({"op": op, "ems": ems})
    # v3: half of the non-blocking sessions learn their engine id through a discovery exchange first (as the clients do)
    # sync / async: the datagrams of a burst arrive either back to back (the receive loop sees them queued) or a few ms
    # apart (the socket runs empty after each, so the clients have to resume waiting)
    gap = u.choice([0, 0, 4, 8]) if driver != "nb" else 0
    return {"cfg": cfg, "driver": driver, "reqs": reqs, "discover": cfg.version == "v3" and driver == "nb" and u.bool(), "gap_ms": gap}


def describe(c):
    return {"cfg": c["cfg"].describe(), "_cfg": gen.cfg_to_json(c["cfg"]), "driver": c["driver"], "reqs": c["reqs"], "discover": c.get("discover", False), "gap_ms": c.get("gap_ms", 0)}


def value_for(k):
    return 4200 + k


def expected_result(op, name_text, val, driver="nb"):
    if driver != "nb" and op in ("getnext1", "getbulk1"):
        return (name_text, val)  # the iterator classes yield one (oid, value) pair at a time
    if op == "get":
        return val
    if op == "get_many":
        return {name_text: val}
    if op == "getnext1":
        return (name_text, val)
    return [(name_text, val)]


def emit(cfg, parsed, src, fault, param):
    """Datagrams for one emission."""
    req = parsed[src]
    name = BASE + (1,)
    vb = [rb.varbind(rb.enc_oid(name), rb.enc_int(value_for(src)))]
    kw = {}
    if fault in ("deliver", "dup", "hold"):
        pass
    elif fault == "rid+1":
        kw["request_id"] = (req["request_id"] + 1) & 0x7FFFFFFF
    elif fault == "rid-1":
        kw["request_id"] = req["request_id"] - 1
    elif fault == "rid_rand":
        kw["request_id"] = (param * 2654435761) & 0x7FFFFFFF
    elif fault == "rid_wide":
        v = req["request_id"] + WIDE[param % len(WIDE)]
        kw["request_id"] = v if -(1 << 63) <= v < (1 << 63) else req["request_id"] - (1 << 32)
    elif fault == "msgid_wide":
        if cfg.version == "v3":
            v = req["msg_id"] + WIDE[param % len(WIDE)]
            kw["msg_id"] = v if -(1 << 63) <= v < (1 << 63) else req["msg_id"] - (1 << 32)
    elif fault == "rid_other":
        other = parsed[param % len(parsed)]
        kw["request_id"] = other["request_id"]
    elif fault == "community":
        if cfg.version != "v3":
            kw["community"] = (cfg.community + "x").encode() if param & 1 else b""
    elif fault == "version":
        kw["version"] = {"v1": 1, "v2c": 0, "v3": 1}[cfg.version] if param & 1 else {"v1": 3, "v2c": 3, "v3": 0}[cfg.version]
    elif fault == "msgid":
        if cfg.version == "v3":
            kw["msg_id"] = req["msg_id"] ^ (1 << (param % 31))
    elif fault == "user":
        if cfg.version == "v3":
            kw["user"] = (cfg.user + "x").encode() if param & 1 else b""
    elif fault == "echo_req":
        # a well-formed *request* PDU (GetRequest / GetNextRequest, NULL values) of the session's version and credentials
        # whose request-id is that of no request of this history - e.g. another manager's request reflected by a
        # misconfigured device; it answers nothing and has to be skipped like any other non-matching message
        rid = (req["request_id"] + 1 + (param % 5)) & 0x7FFFFFFF
        used = {p_["request_id"] for p_ in parsed if p_ is not None and "request_id" in p_}
        while rid in used:
            rid = (rid + 7919) & 0x7FFFFFFF
        kw["request_id"] = rid
        kw["pdu_tag"] = rb.PDU_GETNEXT if param & 8 else rb.PDU_GET
        vb = [rb.varbind(rb.enc_oid(name), rb.tlv(rb.T_NULL, b""))]
    elif fault == "report_stale":
        # a Report of this very agent for this very user (say a network duplicate of the Report that answered an earlier
        # exchange) whose msgID is that of no request of this history; its request-id is the request's or arbitrary
        if cfg.version == "v3":
            mid = req["msg_id"] ^ (1 << (param % 31))
            used = {p_["msg_id"] for p_ in parsed if p_ is not None and "msg_id" in p_}
            bit = 0
            while mid in used:
                mid = req["msg_id"] ^ (1 << (param % 31)) ^ (1 << (bit % 31)) ^ 0x40000000
                bit += 1
            kw["msg_id"] = mid
            kw["pdu_tag"] = rb.PDU_REPORT
            if param & 1:
                kw["request_id"] = (param * 2654435761) & 0x7FFFFFFF
            if param & 2:
                kw["mac"] = "absent"
    elif fault == "engine":
        if cfg.version == "v3":
            kw["engine_id"] = OTHER_ENGINE
    elif fault == "near":
        # credentials that differ from the session's only by an appended / removed / changed octet (prefix tests, case folding ...)
        k = param % 6
        if cfg.version == "v3":
            e = cfg.engine_id
            if k == 0:
                kw["engine_id"] = e + b"\x00"
            elif k == 1:
                kw["engine_id"] = e + bytes([param & 0xFF, 1, 2, 3])
            elif k == 2:
                kw["engine_id"] = e[:-1]
            elif k == 3:
                kw["engine_id"] = e[:-1] + bytes([e[-1] ^ 1])
            elif k == 4:
                kw["user"] = cfg.user.encode()[:-1]
            else:
                kw["user"] = cfg.user.upper().encode() if cfg.user.upper() != cfg.user else cfg.user.encode() + b"\x00"
        else:
            cm = cfg.community.encode()
            kw["community"] = [cm + b"\x00", cm[:-1], cm.upper() if cm.upper() != cm else cm + b"1", cm + cm, b" " + cm, cm[:-1] + bytes([cm[-1] ^ 1])][k]
    m = ag.build_reply(cfg, req, vb, **kw)
    if fault == "truncate":
        m = m[:1 + param % (len(m) - 1)]  # never empty: asyncio transports silently drop empty datagrams
    if fault == "drop":
        return []
    if fault == "dup":
        return [m, m]
    return [m]


def classify(cfg, d, req):
    """'decode_error' | 'skip' | ('match', name_text, value)"""
    try:
        t, s, e = rb.read_tlv(d, 0, len(d), strict=False)
        if t != 0x30 or e != len(d):
            return "decode_error"
        ver, _ = rb.read_int(d, s, e, strict=False)
    except rb.BerError:
        return "decode_error"
    if ver != {"v1": 0, "v2c": 1, "v3": 3}[cfg.version]:
        return "decode_error"
    try:
        m = rb.parse_message(d, strict=False)
    except rb.BerError:
        return "decode_error"
    if cfg.version != "v3":
        if m["community"] != cfg.community.encode() or m["request_id"] != req["request_id"]:
            return "skip"
    else:
        if m.get("encrypted") is not None:
            try:
                m = ag.decode_request(cfg, d, strict=False)
            except rb.BerError:
                return "skip"
        if (m["user"] != cfg.user.encode() or m["engine_id"] != cfg.engine_id or m["msg_id"] != req["msg_id"]
                or m["request_id"] != req["request_id"]):
            return "skip"
    (oid, vt, vc), = m["varbinds"]
    return ("match", rb.oid_text(oid), rb.dec_int_content(vc, strict=False))


class TimingSuspect(Exception):
    """A blocking driver reported a timeout where the model expects a datagram to be consumed: could be a loaded
    machine (150 ms budget) rather than the library; the case is re-run with a generous timeout before anything is reported."""


def execute(G, c, timeout=0.15):
    cfg, reqs = c["cfg"], c["reqs"]
    parsed = []
    bursts = []
    held = []

    def handler(d):
        k = len(parsed)
        if k >= len(reqs):
            return []
        parsed.append(ag.decode_request(cfg, d, strict=False))
        out = list(held)
        del held[:]
        for src, f, param in reqs[k]["ems"]:
            ms = emit(cfg, parsed, src, f, param)
            if f == "hold":
                held.extend(ms)
            else:
                out.extend(ms)
        bursts.append(out)
        g = c.get("gap_ms", 0)
        if g and c["driver"] != "nb":
            spaced = []
            for o in out:
                spaced += [o, min(g, 80.0 / max(1, len(out))) / 1000.0]
            return spaced
        return out

    calls = []
    for k, r in enumerate(reqs):
        if r["op"] == "get":
            calls.append(("get", "1.3.6.1.2.1.7.1"))
        elif r["op"] == "get_many":
            calls.append(("get_many", ["1.3.6.1.2.1.7.1", "1.3.6.1.2.1.7.2"]))
        elif r["op"] == "getnext1":
            calls.append(("getnext1", rb.oid_text(BASE)))
        else:
            calls.append(("getbulk1", rb.oid_text(BASE), 3))
    kw = {}
    link = None
    if c.get("discover"):
        link = ag.NbLink()
        tmp = ag.Cfg("v3", user="", engine_id=b"")
        client = drivers.NbClient(G, tmp, link)
        client.send("refresh")
        probe = link.recv_all()
        preq = ag.decode_request(tmp, probe[0], strict=False)
        link.send(ag.build_report(tmp, preq, cfg.engine_id, 0, 0))
        client.recv("refresh")
        client.sock.set_keys(*cfg.raw_args(cfg.engine_id))
        client.cfg = cfg
        kw = {"link": link, "client": client}
    try:
        outs = drivers.run_calls(G, c["driver"], cfg, calls, handler, timeout=timeout, **kw)
    finally:
        if link is not None:
            link.close()
    # reference FIFO model
    q = []
    info = {"stale_before_match": False, "nonmatching_before_match": False}
    for k, r in enumerate(reqs):
        if k >= len(parsed):
            raise core.Failure("no-request-seen", "call %d sent no datagram" % k)
        q.extend(bursts[k])
        exp = ("empty",)
        skipped = 0
        while q:
            d = q.pop(0)
            cl = classify(cfg, d, parsed[k])
            if cl == "decode_error":
                exp = ("decode_error",)
                break
            if cl == "skip":
                skipped += 1
                continue
            exp = cl
            if skipped:
                info["nonmatching_before_match"] = True
            break
        out = outs[k]
        what = "request %d (%s) of %r over %s [%s]: model expects %r, call gave %r" % (k, r["op"], [x["op"] for x in reqs], cfg.describe(), c["driver"], exp, out)
        if (c["driver"] != "nb" and timeout < 1.0 and exp[0] != "empty" and out.kind == "exc" and isinstance(out.exc, TimeoutError)):
            raise TimingSuspect(what)
        if exp[0] == "empty":
            ok = out.kind == "exc" and isinstance(out.exc, (BlockingIOError,) if c["driver"] == "nb" else (TimeoutError,))
            if not ok:
                sig = "delivered-without-matching-reply" if out.kind == "ok" else "wrong-failure-when-no-reply"
                raise core.Failure(sig, what)
        elif exp[0] == "decode_error":
            if not (out.kind == "exc" and isinstance(out.exc, G.SnmpDecodeError)):
                raise core.Failure("undecodable-datagram-not-reported", what)
        else:
            want = expected_result(r["op"], exp[1], exp[2], c["driver"])
            if out.kind != "ok":
                raise core.Failure("matching-reply-not-delivered", what)
            if out.value != want:
                raise core.Failure("wrong-value-delivered", what + " (wanted %r)" % (want,))
    return info


def nontrivial(c):
    # a non-matching well-formed datagram (or stale reply) is in play
    for k, r in enumerate(c["reqs"]):
        for src, f, p in r["ems"]:
            if src != k or f not in ("deliver", "drop"):
                return True
    return False


def run(rep, tier):
    G = drivers.load()
    rep.rule = ("Hypothesis scripts: 1..4 requests (get/get_many/getnext/getbulk) on one session x per-request bursts of 0..5 "
                "emissions (source request <= k, fault in deliver/drop/dup/hold/stale Report with a foreign msgID/request PDU with a foreign request-id/rid+-1/rid random/rid of other request/community/"
                "version/msgID/user/engine id/near-miss credentials (one octet appended, removed or changed)/ids equal modulo 2^31-2^32/truncate) x v1/v2c/v3(all levels; half of the v3 sessions learn their engine id by discovery) x nb(90%)/sync/async. Non-trivial = script has an "
                "emission that is stale (source < k) or faulted; distinct by (cfg, script). Thorough adds exhaustive fault words.")
    rep.assumptions = ["FIFO delivery on loopback UDP", "ids are read from the wire, never predicted"]

    def body(c):
        try:
            execute(G, c)
        except TimingSuspect:
            rep.count("timing_suspects_rerun_with_long_timeout")
            try:
                execute(G, c, timeout=3.0)
            except TimingSuspect as t:
                raise core.Failure("matching-reply-not-delivered", "even with a 3 s timeout: %s" % t)
        faults = set(f for r in c["reqs"] for _, f, _ in r["ems"])
        rep.case((c["cfg"].describe(), repr(c["reqs"])), nontrivial(c),
                 sample={"cfg": c["cfg"].describe(), "driver": c["driver"], "reqs": c["reqs"]},
                 classes=["driver:" + c["driver"], "ver:" + c["cfg"].version, "gap:%d" % c.get("gap_ms", 0), "nreq:%d" % len(c["reqs"])] + ["fault:" + f for f in faults]
                 + (["v3_engine_id_discovered"] if c.get("discover") else []))

    n = 4000 if tier == "quick" else 100000
    if core.run_hypothesis(rep, gen.case_strategy(build_case, 512), body, n, describe=describe):
        return
    if tier == "thorough":
        exhaustive(rep, G)


def exhaustive(rep, G):
    """All fault words of length <= 3 for the second of two requests, per version."""
    import itertools
    faults = sorted(set(FAULTS))
    total = 0
    for ver_cfg in (ag.Cfg("v1"), ag.Cfg("v2c"), ag.Cfg("v3", engine_id=gen.ENGINE_IDS[0], auth="sha1", priv="aes", auth_kt="localized", priv_kt="localized")):
        for n in (1, 2, 3):
            for word in itertools.product(faults, repeat=n):
                for srcs in itertools.product((0, 1), repeat=n):
                    c = {"cfg": ver_cfg, "driver": "nb",
                         "reqs": [{"op": "get", "ems": [(0, "hold", 0)]},
                                  {"op": "get", "ems": [(s, f, 5) for s, f in zip(srcs, word)]}]}
                    try:
                        execute(G, c)
                    except (core.Failure, TimingSuspect) as f:
                        rep.violation(getattr(f, "signature", "timing"), describe(c), getattr(f, "message", str(f)))
                        return
                    total += 1
                    rep.case((ver_cfg.version, word, srcs), True, classes=["exhaustive"])
    rep.extra["exhaustive_fault_words"] = total


def replay(rep, case, body=None):
    G = drivers.load()
    c = {"cfg": gen.cfg_from_json(case["_cfg"]), "driver": case["driver"], "discover": case.get("discover", False), "gap_ms": case.get("gap_ms", 0),
         "reqs": [{"op": r["op"], "ems": [tuple(e) for e in r["ems"]]} for r in case["reqs"]]}
    try:
        try:
            execute(G, c)
        except TimingSuspect:
            execute(G, c, timeout=3.0)
    except TimingSuspect as t:
        rep.violation("matching-reply-not-delivered", case, str(t))
    except core.Failure as f:
        rep.violation(f.signature, case, f.message)
