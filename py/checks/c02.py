"""C02 - Response values reach the caller exactly as the agent encoded them.

Generator: model responses (names + values of every supported type, boundary
biased, every legal length form, value under test at every position) encoded by
the independent reference encoder, carried in v1/v2c/v3 (plain/auth/DES/AES;
the agent authenticates and encrypts with the reference crypto) and read
through get / get_many / getnext / getbulk with the non-blocking, sync and
async drivers.
Oracle: documented type table; type()-exact equality; REAL within 4 ulp.
"""
from hypothesis import strategies as st

from vlib import agent as ag
from vlib import core, drivers, gen
from vlib import refber as rb

LEVEL = "exploration"


def long_oid(u):
    """An OID whose BER contents need a long-form length: up to 128 arcs, many of them multi-octet."""
    n = u.range(30, 128)
    return (u.below(3), u.below(40)) + tuple((gen.g_arc(u) if u.bool() else 2 ** 32 - 1 - u.below(3)) for _ in range(n - 2))


def build_case(u):
    cfg = gen.g_cfg(u)
    ops = ["get", "get_many", "get_many", "getnext", "getbulk"] if cfg.version != "v1" else ["get", "get_many", "getnext"]
    op = u.choice(ops)
    driver = "nb" if u.below(16) < 14 else u.choice(["sync", "async"])
    forms = {"pdu": gen.g_lenform(u), "vbl": gen.g_lenform(u), "msg": gen.g_lenform(u), "vb": gen.g_lenform(u)}
    # a legal, unusual v3 reply: non-empty contextName in the scoped PDU (the value must come through all the same)
    ctx_name = u.take(u.below(24)) if (cfg.version == "v3" and u.below(4) == 0) else b""
    # encrypted replies: what pads the scoped PDU to the cipher block is arbitrary (RFC 3414 8.1.1.2: "the actual pad value
    # is irrelevant"); agents use zeroes, the pad count or leftovers
    pad = None
    if cfg.version == "v3" and cfg.priv and u.below(3) == 0:
        pad = bytes((x | 1) for x in u.take(7 if cfg.priv == "des" else u.below(16)))
    if op == "get":
        names = [long_oid(u) if u.below(10) == 0 else gen.g_oid(u, 2, 20)]
        vals = [gen.g_data_value(u) if u.below(8) else gen.g_null(u)]
        return {"cfg": cfg, "op": op, "driver": driver, "names": names, "vals": vals, "forms": forms, "base": None, "chunk": 1, "ctx_name": ctx_name, "pad": pad}
    if op == "get_many":
        n = u.below(7) if u.bool(2, 3) else u.below(41)
        names = []
        for _ in range(n):
            o = long_oid(u) if u.below(24) == 0 else gen.g_oid(u, 2, 12)
            if o not in names:
                names.append(o)
        vals = [gen.g_data_value(u) if u.below(8) else gen.g_null(u) for _ in names]
        return {"cfg": cfg, "op": op, "driver": driver, "names": names, "vals": vals, "forms": forms, "base": None, "chunk": 1, "ctx_name": ctx_name, "pad": pad}
    # walks: names under a base, strictly increasing
    base = gen.g_oid(u, 2, 6)
    n = u.range(1, 12)
    sufs = set()
    for _ in range(n):
        sufs.add(tuple(gen.g_arc(u) for _ in range(u.range(1, 4))))
    names = sorted(base + s for s in sufs)
    vals = [gen.g_data_value(u) for _ in names]
    chunk = u.range(1, 6)
    # walks through the real clients are sometimes preceded by another walk of the same session that the caller abandoned
    # after its first row: what that walk left unread belongs to no later response
    prior = driver != "nb" and u.bool()
    return {"cfg": cfg, "op": op, "driver": driver, "names": names, "vals": vals, "forms": forms, "base": base, "chunk": chunk, "ctx_name": ctx_name,
            "prior": prior, "pad": pad}


def describe(c):
    return {"cfg": c["cfg"].describe(), "op": c["op"], "driver": c["driver"], "forms": c["forms"], "base": c["base"],
            "chunk": c["chunk"], "ctx_name": c.get("ctx_name", b""), "prior": c.get("prior", False), "pad": c.get("pad"), "varbinds": [[rb.oid_text(n), v.kind, v.note, v.tlv, repr(v.py)] for n, v in zip(c["names"], c["vals"])],
            "_cfg": gen.cfg_to_json(c["cfg"]), "_names": [list(n) for n in c["names"]], "_tlvs": [v.tlv for v in c["vals"]],
            "_pys": [py_to_json(v) for v in c["vals"]], "_kinds": [v.kind for v in c["vals"]]}


def py_to_json(v):
    if isinstance(v.py, float):
        return {"float": repr(v.py)}
    return v.py


def py_from_json(x):
    if isinstance(x, dict) and "float" in x:
        return float(x["float"])
    return x


def value_signature(vals):
    ks = sorted(set(v.kind + (":" + v.note.split(" ")[0].split(":")[0] if v.kind == "real" else "") for v in vals))
    return ",".join(ks)


def execute(G, c):
    cfg, op = c["cfg"], c["op"]
    names, vals, forms = c["names"], c["vals"], c["forms"]
    vbs = [rb.varbind(rb.enc_oid(n), v.tlv, forms["vb"]) for n, v in zip(names, vals)]
    state = {"pos": 0, "n": 0}
    prior = bool(c.get("prior")) and op in ("getnext", "getbulk")
    PRIOR_BASE = (1, 3, 6, 1, 4, 1, 99999)

    def handler(d):
        req = ag.decode_request(cfg, d, strict=False)
        state["n"] += 1
        if prior and state["n"] == 1:
            rows = [rb.varbind(rb.enc_oid(PRIOR_BASE + (i,)), rb.enc_int(-7000 - i)) for i in range(1, 5)]
            return [ag.build_reply(cfg, req, rows if req.get("pdu_tag") == rb.PDU_GETBULK else rows[:1])]
        if op in ("get", "get_many"):
            return [ag.build_reply(cfg, req, vbs, forms=forms, ctx_name=c.get("ctx_name", b""), pad_bytes=c.get("pad"))]
        # walk: serve next chunk, then endOfMibView
        i = state["pos"]
        if i >= len(vbs):
            last = names[-1] if names else c["base"]
            return [ag.build_reply(cfg, req, [rb.varbind(rb.enc_oid(last), rb.tlv(rb.T_ENDOFMIBVIEW, b""))], forms=forms)]
        k = 1 if op == "getnext" else c["chunk"]
        state["pos"] = i + k
        return [ag.build_reply(cfg, req, vbs[i:i + k], forms=forms, ctx_name=c.get("ctx_name", b""), pad_bytes=c.get("pad"))]

    if op == "get":
        call = ("get", "1.3.6.1.2.1.1.1.0")
    elif op == "get_many":
        call = ("get_many", [rb.oid_text(n) for n in names] or ["1.3.6.1.2.1.1.1.0"])
    elif op == "getnext":
        call = ("getnext", rb.oid_text(c["base"]))
    else:
        call = ("getbulk", rb.oid_text(c["base"]), c["chunk"])
    if prior:
        first = ("getbulk1", rb.oid_text(PRIOR_BASE), 4) if cfg.version != "v1" else ("getnext1", rb.oid_text(PRIOR_BASE))
        outs = drivers.run_calls(G, c["driver"], cfg, [first, call], handler, timeout=5.0, max_steps=len(vbs) + 3)
        if outs[0].kind != "ok" or outs[0].value != (rb.oid_text(PRIOR_BASE + (1,)), -7001):
            raise core.Failure("prior-walk-first-row", "first row of the abandoned walk over %s: %r" % (cfg.describe(), outs[0]))
        out = outs[1]
    else:
        out = drivers.run_api(G, c["driver"], cfg, call, handler, timeout=5.0, max_steps=len(vbs) + 3)
    sig = value_signature(vals)
    if out.kind != "ok":
        raise core.Failure("no-result:" + sig, "%s(%s) over %s gave %r for a well-formed response" % (op, call[1:], cfg.describe(), out))
    got = out.value
    if op == "get":
        v = vals[0]
        if not gen.py_equal(v.py, got):
            raise core.Failure("value:" + sig, "get returned %r (%s), encoded value denotes %r [%s %s]" % (got, type(got).__name__, v.py, v.kind, v.tlv.hex()))
    elif op == "get_many":
        exp = {rb.oid_text(n): v for n, v in zip(names, vals) if v.kind != "null"}
        if not isinstance(got, dict) or sorted(got.keys()) != sorted(exp.keys()):
            raise core.Failure("keys:" + sig, "get_many keys %r, expected %r" % (list(got) if isinstance(got, dict) else got, list(exp)))
        for k, v in exp.items():
            if not gen.py_equal(v.py, got[k]):
                raise core.Failure("value:" + value_signature([v]), "get_many[%s] = %r (%s), encoded value denotes %r [%s %s]"
                                   % (k, got[k], type(got[k]).__name__, v.py, v.kind, v.tlv.hex()))
    else:
        exp = [(rb.oid_text(n), v) for n, v in zip(names, vals)]
        got = drivers.walk_pairs(got, "%s over %s" % (op, cfg.describe())) if isinstance(got, list) else got
        if not isinstance(got, list) or [g[0] for g in got] != [e[0] for e in exp]:
            raise core.Failure("keys:" + sig, "%s yielded oids %r, expected %r" % (op, [g[0] for g in got], [e[0] for e in exp]))
        for (k, v), g in zip(exp, got):
            if not (isinstance(g, tuple) and len(g) == 2 and gen.py_equal(v.py, g[1])):
                raise core.Failure("value:" + value_signature([v]), "%s yielded %r for %s, encoded value denotes %r [%s %s]"
                                   % (op, g, k, v.py, v.kind, v.tlv.hex()))


def nontrivial(c):
    return (len(c["vals"]) >= 2 or any(v.boundary for v in c["vals"]) or any(a >= 128 for n in c["names"] for a in n[2:])
            or any(c["forms"].values()))


def run(rep, tier):
    G = drivers.load()
    rep.rule = ("Hypothesis model responses: 0..40 varbinds, names first arc 0..2 / arcs<=2^32-1 boundary-biased, values of every "
                "supported type incl. 8-octet negative INTEGER, unsigned with/without leading zero, long-form lengths, REAL "
                "(NR1/2/3, specials, binary base 2/8/16, F 0..3, exponent forms) x v1/v2c/v3(plain/auth/DES/AES, key types) x "
                "get/get_many/getnext/getbulk x drivers nb/sync/async. Non-trivial = >=2 varbinds (value not last) or a "
                "boundary-class value/arc/length form; distinct by (cfg, op, names, value TLVs, forms).")
    rep.assumptions = ["reference BER encoder (refber.py) and reference USM crypto (refusm.py, self-tested on FIPS/RFC vectors)",
                       "REAL compared within 4 ulp, specials class-exact"]

    def body(c):
        execute(G, c)
        kinds = tuple(v.kind for v in c["vals"])
        rep.case((c["cfg"].describe(), c["op"], tuple(c["names"]), tuple(v.tlv for v in c["vals"]), tuple(sorted(c["forms"].items()))),
                 nontrivial(c),
                 sample={"cfg": c["cfg"].describe(), "op": c["op"], "driver": c["driver"],
                         "varbinds": [[rb.oid_text(n), v.kind, v.tlv.hex()] for n, v in zip(c["names"][:4], c["vals"][:4])], "n": len(kinds)},
                 classes=["op:" + c["op"], "driver:" + c["driver"], "ver:" + c["cfg"].version + ("/" + str(c["cfg"].priv) if c["cfg"].version == "v3" else "")]
                 + ["kind:" + k for k in set(kinds)] + ["real:" + v.note.split(" ")[0].split(":")[0] for v in c["vals"] if v.kind == "real"])

    n = 4000 if tier == "quick" else 100000
    if core.run_hypothesis(rep, gen.case_strategy(build_case, 2048), body, n, describe=describe):
        return
    from checks import rsutil
    rsutil.run_rs_part(rep, tier, "C02")


def replay(rep, case, body=None):
    G = drivers.load()
    vals = [gen.Val(k, py_from_json(p), t) for k, p, t in zip(case["_kinds"], case["_pys"], case["_tlvs"])]
    c = {"cfg": gen.cfg_from_json(case["_cfg"]), "op": case["op"], "driver": case["driver"], "forms": case["forms"],
         "base": tuple(case["base"]) if case["base"] else None, "chunk": case["chunk"], "ctx_name": case.get("ctx_name", b""), "prior": case.get("prior", False), "pad": case.get("pad"),
         "names": [tuple(n) for n in case["_names"]], "vals": vals}
    try:
        execute(G, c)
    except core.Failure as f:
        rep.violation(f.signature, case, f.message)
