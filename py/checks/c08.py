"""C08 - The OID sent is the OID asked for; invalid OID text is refused.

Generator: strings from a grammar over {digits . - + space letters}:
  must-accept (>=2 arcs, no leading zeros, first 0..2, second 0..39, arcs <= 2^32-1, up to 128 arcs, boundary-biased),
  must-refuse (empty, one arc, empty arc, leading/trailing dot, '-', letters, arc > 2^32-1, first arc > 2,
               second arc > 39 with first < 2),
  may         (leading zeros, leading '+', surrounding spaces, 2.x with x >= 40) - denotation unambiguous.
Oracle: lenient reference reader D(s) gives the denoted arcs or None.  If a datagram is sent, the strict
reference decoder (true X.690 first-octet rule) must read back exactly D(s); if the call raises, nothing may
have been sent and s must not be must-accept.  must-refuse strings must raise.  must-accept strings are echoed
by the agent and the text handed back must be identical.
"""
import re

from vlib import agent as ag
from vlib import core, drivers, gen
from vlib import refber as rb

LEVEL = "exploration"
PART = re.compile(r"^ *\+?[0-9]+ *$")


def denote(s):
    """Lenient reader: arcs or None."""
    parts = s.split(".")
    if len(parts) < 2:
        return None
    out = []
    for p in parts:
        if not PART.match(p):
            return None
        out.append(int(p))
    return tuple(out)


def classify(s):
    d = denote(s)
    if d is None:
        return "refuse"
    strict = all(re.match(r"^(0|[1-9][0-9]*)$", p) for p in s.split("."))
    if any(a > 2 ** 32 - 1 for a in d) or d[0] > 2 or (d[0] < 2 and d[1] > 39):
        return "refuse"
    if d[0] == 2 and d[1] > 39:
        return "may"
    return "accept" if strict and len(d) <= 128 else "may"


def build_case(u):
    cls = ("accept", "accept", "refuse", "may")[u.below(4)]
    n = u.range(2, 128) if u.below(6) == 0 else u.range(2, 14)
    arcs = list(gen.g_oid(u, n, n))
    parts = [str(a) for a in arcs]
    if cls == "refuse":
        k = u.below(12)
        i = u.below(len(parts))
        if k == 0:
            parts = []
        elif k == 1:
            parts = parts[:1]
        elif k == 2:
            parts.insert(i, "")
        elif k == 3:
            parts = [""] + parts
        elif k == 4:
            parts = parts + [""]
        elif k == 5:
            parts[i] = "-" + parts[i]
        elif k == 6:
            parts[i] = u.choice(["a", "x1", "1x", "0x10", "one", "1e3", "١"[:0] + "z"])
        elif k == 7:
            # just beyond the 32-bit range (where a hand-written digit loop would wrap), powers of two, very long
            parts[i] = str(u.choice([2 ** 32 + d for d in range(12)] + [2 ** 32 + 1000, 2 ** 33, 2 ** 40, 2 ** 63, 2 ** 64, 2 ** 64 + 1,
                                    4294967295 * 10, 42949672960, 10 ** 19]) if u.bool() else 10 ** (10 + u.below(25)))
        elif k == 8:
            parts[0] = str(u.choice([3, 4, 6, 7, 9, 10, 39, 40, 255, 256, 2 ** 32 - 1]))
        elif k == 9:
            parts[0] = str(u.below(2))
            parts[1] = str(u.choice([40, 41, 47, 79, 100, 255, 256, 2 ** 32 - 1]))
        elif k == 10:
            parts[i] = parts[i] + " " + "1"
        else:
            parts[i] = u.choice(["+", "-", " ", "+-1", "1+", "--1"])
    elif cls == "may":
        k = u.below(5)
        i = u.below(len(parts))
        if k == 0:
            parts[i] = "0" * u.range(1, 3) + parts[i]
        elif k == 1:
            parts[i] = "+" + parts[i]
        elif k == 2:
            parts[i] = " " + parts[i] if u.bool() else parts[i] + " "
        elif k == 3:
            parts[0] = "2"
            parts[1] = str(u.choice([40, 47, 48, 100, 175, 176, 1000, 16303, 16304, 2 ** 32 - 81]))
        else:
            parts[0] = " " + parts[0]
    s = ".".join(parts)
    entry = u.choice(["get", "get_many", "getnext", "getbulk"])
    ver = u.choice(["v1", "v2c", "v3"])
    if ver == "v1" and entry == "getbulk":
        entry = "getnext"
    pos = u.below(3)
    return {"s": s, "entry": entry, "ver": ver, "pos": pos}


def describe(c):
    return dict(c)


CFGS = {"v1": ag.Cfg("v1"), "v2c": ag.Cfg("v2c"), "v3": ag.Cfg("v3", engine_id=gen.ENGINE_IDS[0])}
FILL = ["1.3.6.1.2.1.1.1.0", "1.3.6.1.2.1.1.2.0"]


def execute(G, c, link):
    s, entry = c["s"], c["entry"]
    cfg = CFGS[c["ver"]]
    cls = classify(s)
    d = denote(s)
    cl = drivers.NbClient(G, cfg, link)
    link.recv_all()
    raised = None
    it = None
    oids = None
    try:
        if entry == "get":
            cl.send("get", s)
        elif entry == "get_many":
            oids = list(FILL)
            oids.insert(c["pos"], s)
            cl.send("get_many", oids)
        else:
            it = cl.make_iter(s) if entry == "getnext" else cl.make_iter(s, 7)
            cl.send(entry, it)
    except BaseException as e:  # noqa: BLE001
        raised = e
    got = link.recv_all()
    info = "%s(%r) [%s, class %s, denotes %s]" % (entry, s, c["ver"], cls, d)
    if raised is not None:
        if not isinstance(raised, Exception):
            raise core.Failure("refusal-is-a-crash:" + type(raised).__name__, "%s raised %r" % (info, raised))
        if got:
            raise core.Failure("raised-but-sent", "%s raised %r but %d datagram(s) were sent" % (info, raised, len(got)))
        if cls == "accept":
            raise core.Failure("valid-oid-refused", "%s raised %r" % (info, raised))
        return cls, "refused"
    if len(got) != 1:
        raise core.Failure("datagram-count", "%s sent %d datagrams" % (info, len(got)))
    if cls == "refuse":
        try:
            sent = ag.decode_request(cfg, got[0], strict=False)["varbinds"]
        except rb.BerError as e:
            sent = "undecodable: %s" % e
        raise core.Failure("invalid-oid-sent", "%s was not refused; sent %r" % (info, sent))
    try:
        req = ag.decode_request(cfg, got[0], strict=True)
    except rb.BerError as e:
        raise core.Failure("request-not-canonical", "%s: emitted request is not strictly decodable: %s" % (info, e))
    names = [v[0] for v in req["varbinds"]]
    idx = c["pos"] if entry == "get_many" else 0
    if idx >= len(names) or names[idx] != d:
        raise core.Failure("different-oid-sent", "%s: request carries %r" % (info, names))
    if cls == "accept":
        # echo: text handed back must be identical
        if entry in ("get_many", "getnext", "getbulk"):
            name = rb.enc_oid(d)
            try:
                if entry == "get_many":
                    link.send(ag.build_reply(cfg, req, [rb.varbind(name, rb.enc_int(1))]))
                    r = cl.recv("get_many")
                    back = list(r.keys())
                else:
                    # the echoed name must be *inside* the subtree to be yielded: append one arc and strip it in the comparison
                    name2 = rb.enc_oid(d + (1,))
                    link.send(ag.build_reply(cfg, req, [rb.varbind(name2, rb.enc_int(1))]))
                    r = cl.recv(entry, it)
                    back = [r[0]] if entry == "getnext" else [x[0] for x in r if x is not None]
                    s = s + ".1"
            except BaseException as e:  # noqa: BLE001
                raise core.Failure("text-roundtrip", "%s: reading the echoed OID back raised %r" % (info, e))
            if back != [s]:
                raise core.Failure("text-roundtrip", "%s: echoed OID handed back as %r" % (info, back))
    return cls, "sent"


def run(rep, tier):
    G = drivers.load()
    link = ag.NbLink()
    rep.rule = ("Hypothesis grammar strings in classes must-accept / must-refuse / may, fed to get, get_many (at any list position), "
                "GetIter+getnext/getbulk on v1/v2c/v3. Non-trivial = string with a boundary arc (>=128) or in the must-refuse/may "
                "class; distinct by (string, entry point).")

    def body(c):
        cls, outcome = execute(G, c, link)
        d = denote(c["s"])
        nt = cls != "accept" or any(a >= 128 for a in (d or ())[2:])
        rep.case((c["s"], c["entry"]), nt, sample={"s": c["s"][:120], "class": cls, "entry": c["entry"], "outcome": outcome},
                 classes=["class:" + cls, "entry:" + c["entry"], "%s->%s" % (cls, outcome), "arcs>=64" if d and len(d) >= 64 else "arcs<64"])

    n = 6000 if tier == "quick" else 200000
    try:
        core.run_hypothesis(rep, gen.case_strategy(build_case, 1024), body, n, describe=describe)
    finally:
        link.close()


def replay(rep, case, body=None):
    G = drivers.load()
    link = ag.NbLink()
    try:
        execute(G, case, link)
    except core.Failure as f:
        rep.violation(f.signature, case, f.message)
    finally:
        link.close()
