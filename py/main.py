#!/usr/bin/env python3
"""Entry point:  main.py <ID> [--tier quick|thorough] [--replay FILE]   |   main.py --setup"""
import argparse
import importlib
import json
import os
import sys
import traceback

os.environ.setdefault("RUST_BACKTRACE", "0")
HERE = os.path.dirname(os.path.abspath(__file__))
sys.path.insert(0, HERE)

from vlib import build, core  # noqa: E402


def main():
    ap = argparse.ArgumentParser()
    ap.add_argument("pid", nargs="?")
    ap.add_argument("--tier", default=os.environ.get("VERIF_TIER", "quick"))
    ap.add_argument("--replay")
    ap.add_argument("--setup", action="store_true")
    a = ap.parse_args()
    try:
        seed = int(os.environ.get("VERIF_SEED", "0") or 0)
    except ValueError:
        seed = 0
    if a.setup:
        try:
            build.ensure_ext()
            build.ensure_mirror()
            build.ensure_fuzz()
        except build.BuildError as e:
            print("setup: build failed:\n%s" % e)
            return 2
        print("setup ok")
        return 0
    pid = a.pid.upper()
    tier = a.tier if a.tier in ("quick", "thorough") else "quick"
    try:
        mod = importlib.import_module("checks.%s" % pid.lower())
    except ModuleNotFoundError:
        print("no check for %s" % pid)
        return 2
    rep = core.Reporter(pid, tier, seed, getattr(mod, "LEVEL", "exploration"))
    if getattr(mod, "ISOLATE", False) and not a.replay and not os.environ.get("VERIF_NO_ISOLATE"):
        # The property speaks about process death: run the body in a child so that an abort / segfault of the
        # extension is observed (and reported with the case that was executing) instead of killing the check.
        journal = os.path.join(core.REPLAY_RUN_DIR, pid, "in-flight.json")
        os.makedirs(os.path.dirname(journal), exist_ok=True)
        if os.path.exists(journal):
            os.remove(journal)
        child_env = dict(os.environ, VERIF_NO_ISOLATE="1", VERIF_JOURNAL=journal)
        import subprocess
        p = subprocess.run([sys.executable, os.path.abspath(__file__), pid, "--tier", tier], env=child_env)
        if p.returncode in (0, 1, 2):
            return p.returncode
        dst = os.path.join(core.REPLAY_RUN_DIR, pid, "process-death-%d.json" % abs(p.returncode))
        if os.path.exists(journal):
            os.replace(journal, dst)
        else:
            with open(dst, "w") as fh:
                json.dump({"property": pid, "signature": "process-death", "case": None}, fh)
        print("VIOLATION property=%s replay=%s" % (pid, dst))
        print("  signature: process-death:%d\n  the check body died with status %d while executing the case saved in the replay file" % (p.returncode, p.returncode))
        rep.violations.append({"signature": "process-death:%d" % p.returncode, "message": "child died", "replay": dst})
        rep.evaluations = 1
        rep.finish()
        return 1
    try:
        if a.replay:
            with open(a.replay) as fh:
                body = json.load(fh)
            mod.replay(rep, core.unjson(body.get("case", body)), body)
        else:
            # committed regression inputs first
            rdir = os.path.join(core.REPLAY_DIR, pid)
            if os.path.isdir(rdir) and hasattr(mod, "replay"):
                for f in sorted(os.listdir(rdir)):
                    if f.endswith(".json"):
                        with open(os.path.join(rdir, f)) as fh:
                            body = json.load(fh)
                        mod.replay(rep, core.unjson(body.get("case", body)), body)
                        rep.count("regression_inputs")
            mod.run(rep, tier)
    except build.BuildError as e:
        print("INCONCLUSIVE: build failed, nothing was checked:\n%s" % e)
        return 2
    except core.Inconclusive as e:
        print("INCONCLUSIVE: %s" % e)
        rep.finish()
        return 2
    except BaseException as e:  # noqa: BLE001
        if isinstance(e, (KeyboardInterrupt, SystemExit)):
            raise
        sig = core.library_raised(e)
        if sig is not None:
            # raised by the library itself at a point where the check expects an outcome the statement allows
            rep.violation(sig, {"part": "outside the generated cases", "traceback": traceback.format_exc()[-3000:]},
                          "the library raised %r" % (e,))
            return rep.finish()
        # a bug in the machinery is never reported as a violation
        traceback.print_exc()
        print("INCONCLUSIVE: internal error in the check harness")
        return 2
    return rep.finish()


if __name__ == "__main__":
    sys.exit(main())
