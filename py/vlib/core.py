"""Shared check infrastructure: reporter (evidence, violations, known findings),
Hypothesis driver, replay files."""
import hashlib
import json
import os
import sys
import time

VERIF = os.path.dirname(os.path.dirname(os.path.dirname(os.path.abspath(__file__))))
# evidence of runs against a scratch copy (VERIF_REPO=..., used for mutation self-tests) must never overwrite the
# committed evidence of /repo itself
_scratch = os.path.abspath(os.environ.get("VERIF_REPO", "/repo")) != "/repo" or bool(os.environ.get("VERIF_PKG_OVERRIDE"))
EVIDENCE_DIR = os.path.join(VERIF, ".build", "evidence-scratch") if _scratch else os.path.join(VERIF, "evidence")
REPLAY_RUN_DIR = os.path.join(VERIF, ".build", "replay")
REPLAY_DIR = os.path.join(VERIF, "replay")
KNOWN_FILE = os.path.join(VERIF, "known_findings.json")


class Inconclusive(Exception):
    """Raised when the machinery itself cannot decide (exit 2)."""


def load_known():
    try:
        with open(KNOWN_FILE) as fh:
            return json.load(fh).get("findings", [])
    except OSError:
        return []


def jsonable(x):
    if isinstance(x, (bytes, bytearray)):
        return {"hex": bytes(x).hex()}
    if isinstance(x, dict):
        return {str(k): jsonable(v) for k, v in x.items()}
    if isinstance(x, (list, tuple)):
        return [jsonable(v) for v in x]
    if isinstance(x, float):
        if x != x:
            return "NaN"
        if x in (float("inf"), float("-inf")):
            return "inf" if x > 0 else "-inf"
        return x
    if isinstance(x, (int, str, bool)) or x is None:
        return x
    return repr(x)


def unjson(x):
    if isinstance(x, dict):
        if set(x.keys()) == {"hex"}:
            return bytes.fromhex(x["hex"])
        return {k: unjson(v) for k, v in x.items()}
    if isinstance(x, list):
        return [unjson(v) for v in x]
    return x


class Reporter:
    def __init__(self, pid, tier, seed, level="exploration"):
        self.pid = pid
        self.tier = tier
        self.seed = seed
        self.level = level
        self.t0 = time.time()
        self.evaluations = 0
        self.nontrivial = set()
        self.samples = []
        self.nt_samples = []
        self.classes = {}
        self.violations = []
        self.known_hits = {}
        self.excluded_known = 0
        self.frozen = False
        self.rule = ""
        self.assumptions = []
        self.extra = {}
        self.exhaustive = None
        self.nontrivial_extra = 0
        self.known = [k for k in load_known() if k.get("property") == pid and k.get("status") == "known"]
        self.parts = {}

    # -- counting -------------------------------------------------------------
    def case(self, key, nontrivial, sample=None, classes=()):
        if self.frozen:
            return
        self.evaluations += 1
        for c in classes:
            self.classes[c] = self.classes.get(c, 0) + 1
        if nontrivial:
            hk = hashlib.blake2b(repr(key).encode(), digest_size=8).digest()
            if hk not in self.nontrivial:
                self.nontrivial.add(hk)
                if sample is not None and len(self.nt_samples) < 4:
                    self.nt_samples.append(jsonable(sample))
        elif sample is not None and len(self.samples) < 3:
            self.samples.append(jsonable(sample))

    def count(self, cls, n=1):
        if not self.frozen:
            self.classes[cls] = self.classes.get(cls, 0) + n

    def bulk(self, evaluations, nontrivial_keys=(), samples=(), classes=None):
        """Merge counts from a sub-engine (rust binary)."""
        self.evaluations += evaluations
        for k in nontrivial_keys:
            self.nontrivial.add(k)
        for s in samples:
            if len(self.nt_samples) < 8:
                self.nt_samples.append(s)
        for c, n in (classes or {}).items():
            self.classes[c] = self.classes.get(c, 0) + n

    # -- violations -----------------------------------------------------------
    def is_known(self, signature):
        for k in self.known:
            if k.get("signature") == signature:
                return k
        return None

    def known_hit(self, signature):
        """Record a hit on a listed known finding (prints once)."""
        k = self.is_known(signature)
        if k is None:
            return False
        if signature not in self.known_hits:
            self.known_hits[signature] = 0
            print("KNOWN-FINDING: property=%s %s" % (self.pid, k.get("what", signature)), flush=True)
        self.known_hits[signature] += 1
        self.excluded_known += 1
        return True

    def violation(self, signature, case, message):
        """Report a violation (unless it is a listed known finding)."""
        if self.known_hit(signature):
            return False
        os.makedirs(os.path.join(REPLAY_RUN_DIR, self.pid), exist_ok=True)
        body = {"property": self.pid, "signature": signature, "message": message, "case": jsonable(case),
                "seed": self.seed, "tier": self.tier}
        name = hashlib.sha1(json.dumps(body["case"], sort_keys=True).encode() + signature.encode()).hexdigest()[:12]
        path = os.path.join(REPLAY_RUN_DIR, self.pid, "%s.json" % name)
        with open(path, "w") as fh:
            json.dump(body, fh, indent=1)
        self.violations.append({"signature": signature, "message": message[:2000], "replay": path})
        print("VIOLATION property=%s replay=%s" % (self.pid, path), flush=True)
        print("  signature: %s\n  %s" % (signature, message[:1500].replace("\n", "\n  ")), flush=True)
        return True

    # -- evidence -------------------------------------------------------------
    def finish(self):
        os.makedirs(EVIDENCE_DIR, exist_ok=True)
        cov = {
            "evaluations": self.evaluations,
            "distinct_nontrivial": len(self.nontrivial) + self.nontrivial_extra,
            "rule": self.rule,
            "samples": (self.nt_samples + self.samples)[:10],
            "class_histogram": dict(sorted(self.classes.items())),
            "excluded_known": self.excluded_known,
            "known_finding_hits": self.known_hits,
        }
        if self.exhaustive is not None:
            cov["exhaustive"] = self.exhaustive
        cov.update(self.extra)
        if self.parts:
            cov["parts"] = self.parts
        ev = {
            "property_id": self.pid,
            "tier": self.tier,
            "seed": self.seed,
            "level": self.level,
            "coverage": cov,
            "assumptions": self.assumptions,
            "wall_s": round(time.time() - self.t0, 2),
            "violations": len(self.violations),
        }
        if self.violations:
            ev["coverage"]["violation_list"] = self.violations[:20]
        path = os.path.join(EVIDENCE_DIR, "%s.json" % self.pid)
        tmp = path + ".tmp%d" % os.getpid()
        with open(tmp, "w") as fh:
            json.dump(ev, fh, indent=1)
        os.replace(tmp, path)
        status = "VIOLATED" if self.violations else "held"
        print("[%s] %s: %d cases, %d distinct non-trivial, %d known-finding hits, %.1fs"
              % (self.pid, status, self.evaluations, len(self.nontrivial) + self.nontrivial_extra, sum(self.known_hits.values()),
                 time.time() - self.t0), flush=True)
        return 1 if self.violations else 0


class Failure(Exception):
    """Raised inside a property body: (signature, message)."""

    def __init__(self, signature, message):
        super().__init__("%s: %s" % (signature, message))
        self.signature = signature
        self.message = message


def library_raised(exc):
    """If `exc` escaped from a check body and was raised *by the library* - its innermost frame is in the library's own
    Python code, or its class belongs to gufo.snmp / is a PyO3 panic - return a signature for it, else None.
    Every call a property speaks about has an outcome the check anticipates (a value, a documented exception); the
    checks pass on the unchanged tree without any such escape, so an escape of this kind is behaviour of the changed
    library at a point where the statement prescribes something else (a NameError inside wait(), a TypeError inside
    User()), and is reported as a violation rather than as a harness fault.  Exceptions raised by harness code stay
    harness faults (exit 2)."""
    if isinstance(exc, (Failure, Inconclusive, KeyboardInterrupt, SystemExit, MemoryError)):
        return None
    tb = exc.__traceback__
    last = None
    while tb is not None:
        last = tb
        tb = tb.tb_next
    where = None
    if last is not None:
        fn = last.tb_frame.f_code.co_filename.replace("\\", "/")
        if "/gufo/snmp/" in fn and "/verif/py/" not in fn:
            where = "%s:%s" % (fn.split("/gufo/snmp/")[-1], last.tb_frame.f_code.co_name)
    mod = type(exc).__module__ or ""
    if where is None and (mod.startswith("gufo.snmp") or type(exc).__name__ == "PanicException" or getattr(exc, "_from_extension", False)):
        where = "extension"
    if where is None:
        return None
    return "library-raised:%s:%s" % (type(exc).__name__, where)


CASE_WATCHDOG_S = 300


def _arm_watchdog(rep):
    """One generated case never takes minutes; if one does, the library (or the harness) is stuck inside a call that does
    not return.  A hang is reported as inconclusive (exit 2), never as a violation - except where the property itself is
    about calls returning in time (C18 has its own, stricter handling)."""
    if getattr(rep, "_watchdog", None):
        return
    import threading

    def watch():
        while True:
            time.sleep(5)
            t = getattr(rep, "busy_since", None)
            if t is not None and time.time() - t > CASE_WATCHDOG_S:
                print("INCONCLUSIVE: watchdog - one generated case has been running for more than %d s (a call that never returns); "
                      "nothing is concluded from it" % CASE_WATCHDOG_S, flush=True)
                os._exit(2)

    rep._watchdog = threading.Thread(target=watch, daemon=True)
    rep._watchdog.start()


def run_hypothesis(rep, strategy, body, max_examples, label="", describe=None, stop_after=1):
    """Run `body(case)` over `strategy` with Hypothesis.

    body raises Failure(signature, message) for a violation.  Known findings
    (by signature) are counted and the search continues.  On an unlisted
    failure Hypothesis shrinks; the minimal case becomes the replay file.
    Returns True if a violation was reported."""
    import hypothesis
    from hypothesis import HealthCheck, Phase, given, settings

    state = {"last": None, "first": None, "best": None, "runs_after": 0, "t_fail": None}
    SHRINK_RUNS, SHRINK_SECONDS = 600, 25.0

    _arm_watchdog(rep)

    def wrapped(case):
        state["last"] = case
        rep.busy_since = time.time()
        try:
            return wrapped_inner(case)
        finally:
            rep.busy_since = None

    def wrapped_inner(case):
        if state["first"] is not None:
            # bounded shrinking: once the budget is used up every further candidate "passes",
            # so the shrinker stops; the verdict is unaffected (the failure is already recorded)
            state["runs_after"] += 1
            if state["runs_after"] > SHRINK_RUNS or time.time() - state["t_fail"] > SHRINK_SECONDS:
                return
        try:
            try:
                body(case)
            except BaseException as e:  # noqa: BLE001
                sig = library_raised(e)
                if sig is None:
                    raise
                raise Failure(sig, "the library raised %r where the check expects one of the outcomes the statement allows" % (e,)) from e
        except Failure as f:
            if rep.known_hit(f.signature):
                return
            if state["first"] is None:
                state["first"] = (case, f)
                state["t_fail"] = time.time()
            state["best"] = (case, f)
            rep.frozen = True
            raise

    test = given(strategy)(wrapped)
    test = hypothesis.seed(rep.seed)(test)
    test = settings(max_examples=max_examples, database=None, deadline=None, derandomize=False,
                    suppress_health_check=list(HealthCheck), report_multiple_bugs=False,
                    phases=[Phase.generate, Phase.shrink], print_blob=False)(test)
    try:
        test()
    except Failure as f:
        case = state["last"]
        rep.frozen = False
        rep.violation(f.signature, describe(case) if describe else case, f.message)
        return True
    except hypothesis.errors.Flaky:
        # The failure was observed against the real code but does not reproduce from the
        # shrunk case alone: it depends on process state left by earlier cases (e.g. the
        # buffer pool).  Report the case on which it was first seen.
        rep.frozen = False
        exhausted = state["runs_after"] > SHRINK_RUNS or (state["t_fail"] and time.time() - state["t_fail"] > SHRINK_SECONDS)
        case, f = state["best"] if exhausted else state["first"]
        d = describe(case) if describe else case
        note = ""
        if not exhausted:
            if isinstance(d, dict):
                d = dict(d)
                d["_history_dependent"] = True
            note = "[history-dependent: seen after earlier cases in the same process] "
        rep.violation(f.signature, d, note + f.message)
        return True
    finally:
        rep.frozen = False
    return False


def write_replay_copy(pid, path):
    """Copy a run-time replay file into the committed replay dir (manual step helper)."""
    os.makedirs(os.path.join(REPLAY_DIR, pid), exist_ok=True)
    dst = os.path.join(REPLAY_DIR, pid, os.path.basename(path))
    with open(path) as a, open(dst, "w") as b:
        b.write(a.read())
    return dst
