"""Independent reference BER codec for SNMP (X.690, RFC 1157/3416/3412/3414).

Pure Python, written from the standards; shares no code or tables with the
library under test.

Encoder: builds TLVs with a *chosen* length form, minimal INTEGER, unsigned
application types with or without a leading zero octet, base-128 OID arcs,
REAL in every X.690 form, whole v1/v2c/v3 messages.

Strict decoder: parses what the client emits and rejects indefinite lengths,
non-minimal length octets, non-minimal INTEGERs, 0x80-padded OID arcs and
trailing bytes at every level.
"""
import math
import struct

# ---------------------------------------------------------------------------
# Encoder
# ---------------------------------------------------------------------------
T_BOOL, T_INT, T_OCTETS, T_NULL, T_OID, T_OBJDESC, T_REAL, T_RELOID = 0x01, 0x02, 0x04, 0x05, 0x06, 0x07, 0x09, 0x0D
T_SEQ = 0x30
T_IPADDR, T_COUNTER32, T_GAUGE32, T_TIMETICKS, T_OPAQUE, T_COUNTER64, T_UINTEGER32 = 0x40, 0x41, 0x42, 0x43, 0x44, 0x46, 0x47
T_NOSUCHOBJECT, T_NOSUCHINSTANCE, T_ENDOFMIBVIEW = 0x80, 0x81, 0x82
PDU_GET, PDU_GETNEXT, PDU_RESPONSE, PDU_GETBULK, PDU_REPORT = 0xA0, 0xA1, 0xA2, 0xA5, 0xA8


def enc_len(n, form=0):
    """form 0: minimal; form k>=1: long form with exactly k length octets
    (k is raised to the minimum needed)."""
    if form == 0:
        if n < 128:
            return bytes([n])
        k = (n.bit_length() + 7) // 8
    else:
        k = max(form, (n.bit_length() + 7) // 8, 1)
    return bytes([0x80 | k]) + n.to_bytes(k, "big")


def tlv(tag, content, form=0):
    return bytes([tag]) + enc_len(len(content), form) + bytes(content)


def int_content(v):
    """Minimal two's complement."""
    n = 1
    while not (-(1 << (8 * n - 1)) <= v < (1 << (8 * n - 1))):
        n += 1
    return v.to_bytes(n, "big", signed=True)


def enc_int(v, form=0, tag=T_INT):
    return tlv(tag, int_content(v), form)


def uint_content(v, leading_zero=None):
    """Unsigned value; leading_zero None -> canonical (zero octet iff high bit
    set), True -> always one zero octet in front, False -> never."""
    raw = v.to_bytes(max(1, (v.bit_length() + 7) // 8), "big")
    if leading_zero is None:
        leading_zero = bool(raw[0] & 0x80)
    return (b"\x00" if leading_zero else b"") + raw


def arc_bytes(a):
    out = [a & 0x7F]
    a >>= 7
    while a:
        out.append(0x80 | (a & 0x7F))
        a >>= 7
    return bytes(reversed(out))


def oid_content(arcs):
    """X.690 8.19: first two arcs combined as 40*a+b (b may exceed 39 when a==2,
    then the combined value is itself base-128 encoded)."""
    assert len(arcs) >= 2
    out = arc_bytes(arcs[0] * 40 + arcs[1])
    for a in arcs[2:]:
        out += arc_bytes(a)
    return out


def enc_oid(arcs, form=0):
    return tlv(T_OID, oid_content(arcs), form)


def oid_text(arcs):
    return ".".join(str(a) for a in arcs)


def parse_oid_text(s):
    return tuple(int(x) for x in s.split("."))


def real_binary_content(sign, mantissa, base, f, exponent, exp_form=None):
    """X.690 8.5.7.  value = sign * mantissa * 2^f * base^exponent."""
    # exp_form: None -> shortest of the fixed forms; 1,2,3 -> that many exponent
    # octets (sign-extended); ("L", k) -> explicit length octet, k exponent octets
    bb = {2: 0, 8: 1, 16: 2}[base]
    e = int_content(exponent)
    pad = b"\xff" if exponent < 0 else b"\x00"
    if exp_form is None:
        exp_form = len(e) if len(e) <= 3 else ("L", len(e))
    if exp_form in (1, 2, 3):
        e = pad * (exp_form - len(e)) + e
        assert len(e) == exp_form, "exponent does not fit"
        first = 0x80 | (0x40 if sign < 0 else 0) | (bb << 4) | (f << 2) | (exp_form - 1)
        head = bytes([first]) + e
    else:  # explicit length octet
        k = max(exp_form[1], len(e))
        e = pad * (k - len(e)) + e
        first = 0x80 | (0x40 if sign < 0 else 0) | (bb << 4) | (f << 2) | 3
        head = bytes([first, len(e)]) + e
    n = mantissa.to_bytes(max(1, (mantissa.bit_length() + 7) // 8), "big")
    return head + n


def real_decimal_content(nr, text):
    return bytes([nr]) + text.encode("ascii")


REAL_PLUS_INF, REAL_MINUS_INF, REAL_NAN, REAL_MINUS_ZERO = b"\x40", b"\x41", b"\x42", b"\x43"


def varbind(name_tlv, value_tlv, form=0):
    return tlv(T_SEQ, name_tlv + value_tlv, form)


def pdu(tag, request_id, f1, f2, varbinds, form=0, vbl_form=0):
    body = enc_int(request_id) + enc_int(f1) + enc_int(f2) + tlv(T_SEQ, b"".join(varbinds), vbl_form)
    return tlv(tag, body, form)


def msg_community(version, community, pdu_bytes, form=0):
    return tlv(T_SEQ, enc_int(version) + tlv(T_OCTETS, community) + pdu_bytes, form)


def scoped_pdu(ctx_engine_id, ctx_name, pdu_bytes, form=0):
    return tlv(T_SEQ, tlv(T_OCTETS, ctx_engine_id) + tlv(T_OCTETS, ctx_name) + pdu_bytes, form)


def usm_params(engine_id, boots, time, user, auth, priv):
    return tlv(T_SEQ, tlv(T_OCTETS, engine_id) + enc_int(boots) + enc_int(time) + tlv(T_OCTETS, user)
               + tlv(T_OCTETS, auth) + tlv(T_OCTETS, priv))


def msg_v3(msg_id, max_size, flags, sec_model, usm_bytes, data_bytes, form=0, version=3):
    hdr = tlv(T_SEQ, enc_int(msg_id) + enc_int(max_size) + tlv(T_OCTETS, bytes([flags])) + enc_int(sec_model))
    return tlv(T_SEQ, enc_int(version) + hdr + tlv(T_OCTETS, usm_bytes) + data_bytes, form)


# ---------------------------------------------------------------------------
# Strict decoder
# ---------------------------------------------------------------------------
class BerError(Exception):
    pass


def read_tlv(b, off=0, end=None, strict=True):
    """Return (tag, content_start, content_end) of the TLV at b[off:end]."""
    if end is None:
        end = len(b)
    if off + 2 > end:
        raise BerError("truncated header at %d" % off)
    tag = b[off]
    if tag & 0x1F == 0x1F:
        raise BerError("high tag number form at %d" % off)
    l0 = b[off + 1]
    p = off + 2
    if l0 < 0x80:
        ln = l0
    else:
        k = l0 & 0x7F
        if k == 0:
            raise BerError("indefinite length at %d" % off)
        if p + k > end:
            raise BerError("truncated length at %d" % off)
        ln = int.from_bytes(b[p:p + k], "big")
        if strict:
            if b[p] == 0:
                raise BerError("non-minimal length octets (leading zero) at %d" % off)
            if ln < 128:
                raise BerError("long form used for length %d at %d" % (ln, off))
        p += k
    if p + ln > end:
        raise BerError("content of TLV at %d (len %d) runs past its container" % (off, ln))
    return tag, p, p + ln


def expect(b, off, end, tag, strict=True):
    t, s, e = read_tlv(b, off, end, strict)
    if t != tag:
        raise BerError("expected tag 0x%02x at %d, found 0x%02x" % (tag, off, t))
    return s, e


def dec_int_content(c, strict=True):
    if len(c) == 0:
        raise BerError("empty INTEGER")
    if strict and len(c) > 1:
        if (c[0] == 0 and not c[1] & 0x80) or (c[0] == 0xFF and c[1] & 0x80):
            raise BerError("non-minimal INTEGER %s" % bytes(c).hex())
    return int.from_bytes(c, "big", signed=True)


def read_int(b, off, end, strict=True):
    s, e = expect(b, off, end, T_INT, strict)
    return dec_int_content(b[s:e], strict), e


def read_octets(b, off, end, strict=True):
    s, e = expect(b, off, end, T_OCTETS, strict)
    return bytes(b[s:e]), e


def dec_oid_content(c, strict=True):
    """True X.690 reading: first sub-identifier is 40*a+b."""
    if len(c) == 0:
        raise BerError("empty OID")
    if c[-1] & 0x80:
        raise BerError("OID ends inside a sub-identifier")
    subs = []
    v = 0
    start = True
    for x in c:
        if start and x == 0x80 and strict:
            raise BerError("sub-identifier with leading 0x80 padding")
        start = False
        v = (v << 7) | (x & 0x7F)
        if not x & 0x80:
            subs.append(v)
            v = 0
            start = True
    f = subs[0]
    if f < 40:
        arcs = [0, f]
    elif f < 80:
        arcs = [1, f - 40]
    else:
        arcs = [2, f - 80]
    return tuple(arcs + subs[1:])


def read_oid(b, off, end, strict=True):
    s, e = expect(b, off, end, T_OID, strict)
    return dec_oid_content(b[s:e], strict), e


def parse_pdu(b, off, end, strict=True):
    """Parse a request/response PDU; returns dict."""
    tag, s, e = read_tlv(b, off, end, strict)
    if e != end:
        raise BerError("trailing bytes after PDU")
    if tag not in (PDU_GET, PDU_GETNEXT, PDU_RESPONSE, PDU_GETBULK, PDU_REPORT):
        raise BerError("unexpected PDU tag 0x%02x" % tag)
    rid, p = read_int(b, s, e, strict)
    f1, p = read_int(b, p, e, strict)
    f2, p = read_int(b, p, e, strict)
    vs, ve = expect(b, p, e, T_SEQ, strict)
    if ve != e:
        raise BerError("trailing bytes after varbind list")
    vbs = []
    p = vs
    while p < ve:
        bs, be = expect(b, p, ve, T_SEQ, strict)
        oid, q = read_oid(b, bs, be, strict)
        vt, vcs, vce = read_tlv(b, q, be, strict)
        if vce != be:
            raise BerError("trailing bytes inside varbind")
        vbs.append((oid, vt, bytes(b[vcs:vce])))
        p = be
    return {"pdu_tag": tag, "request_id": rid, "f1": f1, "f2": f2, "varbinds": vbs, "span": (off, end)}


def parse_scoped(b, off=0, end=None, strict=True, allow_trailing=False):
    """Parse a scoped PDU located at b[off:end]; with allow_trailing the
    scoped PDU may be followed by padding (returns its end offset)."""
    if end is None:
        end = len(b)
    s, e = expect(b, off, end, T_SEQ, strict)
    if e != end and not allow_trailing:
        raise BerError("trailing bytes after scoped PDU")
    ceid, p = read_octets(b, s, e, strict)
    cname, p = read_octets(b, p, e, strict)
    r = parse_pdu(b, p, e, strict)
    r.update({"ctx_engine_id": ceid, "ctx_name": cname, "scoped_end": e})
    return r


def parse_message(b, strict=True, data=True):
    """Parse a whole SNMP message. Returns dict with 'version' and either
    community fields or v3 fields.  For v3 the auth-parameter content span is
    reported so a MAC can be recomputed."""
    b = bytes(b)
    s, e = expect(b, 0, len(b), T_SEQ, strict)
    if e != len(b):
        raise BerError("trailing bytes after message")
    ver, p = read_int(b, s, e, strict)
    if ver in (0, 1):
        comm, p = read_octets(b, p, e, strict)
        r = parse_pdu(b, p, e, strict)
        r.update({"version": ver, "community": comm})
        return r
    if ver != 3:
        raise BerError("unknown version %d" % ver)
    hs, he = expect(b, p, e, T_SEQ, strict)
    msg_id, q = read_int(b, hs, he, strict)
    max_size, q = read_int(b, q, he, strict)
    flags, q = read_octets(b, q, he, strict)
    if len(flags) != 1:
        raise BerError("msgFlags not 1 octet")
    sec_model, q = read_int(b, q, he, strict)
    if q != he:
        raise BerError("trailing bytes in msgGlobalData")
    sps, spe = expect(b, he, e, T_OCTETS, strict)
    us, ue = expect(b, sps, spe, T_SEQ, strict)
    if ue != spe:
        raise BerError("trailing bytes in msgSecurityParameters")
    engine_id, q = read_octets(b, us, ue, strict)
    boots, q = read_int(b, q, ue, strict)
    etime, q = read_int(b, q, ue, strict)
    user, q = read_octets(b, q, ue, strict)
    aps, ape = expect(b, q, ue, T_OCTETS, strict)
    pps, ppe = expect(b, ape, ue, T_OCTETS, strict)
    if ppe != ue:
        raise BerError("trailing bytes in UsmSecurityParameters")
    r = {"version": 3, "msg_id": msg_id, "max_size": max_size, "flags": flags[0], "sec_model": sec_model,
         "engine_id": engine_id, "boots": boots, "time": etime, "user": user,
         "auth_params": b[aps:ape], "auth_span": (aps, ape), "priv_params": b[pps:ppe]}
    if not data:
        return r
    # msgData
    tag, ds, de = read_tlv(b, spe, e, strict)
    if de != e:
        raise BerError("trailing bytes after msgData")
    if tag == T_OCTETS:
        r["encrypted"] = b[ds:de]
        r["data_span"] = (spe, e)
    elif tag == T_SEQ:
        r["encrypted"] = None
        r.update(parse_scoped(b, spe, e, strict))
        r["data_span"] = (spe, e)
    else:
        raise BerError("msgData has tag 0x%02x" % tag)
    return r


# ---------------------------------------------------------------------------
# Value model:  (kind, payload, options) -> TLV bytes and expected Python value
# ---------------------------------------------------------------------------
def f64_from_real_binary(sign, mantissa, base, f, exponent):
    """Exact value via Python big rationals -> nearest double."""
    from fractions import Fraction
    v = Fraction(mantissa) * (2 ** f)
    if exponent >= 0:
        v *= Fraction(base) ** exponent
    else:
        v /= Fraction(base) ** (-exponent)
    try:
        x = float(v)
    except OverflowError:
        x = math.inf
    return -x if sign < 0 else x


def ulp_close(a, b, ulps=4):
    if math.isnan(a) or math.isnan(b):
        return math.isnan(a) and math.isnan(b)
    if math.isinf(a) or math.isinf(b):
        return a == b
    if a == b:
        return math.copysign(1, a) == math.copysign(1, b) or a != 0
    ia = struct.unpack("<q", struct.pack("<d", a))[0]
    ib = struct.unpack("<q", struct.pack("<d", b))[0]
    if (ia < 0) != (ib < 0):
        return False
    return abs(ia - ib) <= ulps
