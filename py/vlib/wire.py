"""Oracles over datagrams emitted by the client (C03, C09, C11, C13, C14, C17).

Everything is computed from what is seen on the wire with the independent
reference decoder / crypto; nothing depends on the library's own codec."""
from . import agent as ag
from . import refber as rb
from . import refusm as ru
from .core import Failure

VERSION_NUM = {"v1": 0, "v2c": 1, "v3": 3}


class SessionModel:
    """The model's view of one session: credentials + (engine id, boots, time)."""

    def __init__(self, cfg, engine_id=None):
        self.cfg = cfg
        self.engine_id = cfg.engine_id if engine_id is None else engine_id
        self.boots = 0
        self.time = 0

    def accept(self, engine_id, boots, time):
        """An accepted message from the agent updates the view."""
        if not self.engine_id:
            self.engine_id = engine_id
        self.boots = boots
        self.time = time


def expected_pdu(call):
    """(pdu_tag, f1, f2, [oid arcs]) for an API call description."""
    op = call[0]
    if op == "get":
        return rb.PDU_GET, 0, 0, [rb.parse_oid_text(call[1])]
    if op == "get_many":
        return rb.PDU_GET, 0, 0, [rb.parse_oid_text(o) for o in call[1]]
    if op in ("getnext", "getnext1"):
        return rb.PDU_GETNEXT, 0, 0, [rb.parse_oid_text(call[1])]
    if op in ("getbulk", "getbulk1"):
        return rb.PDU_GETBULK, 0, call[2], [rb.parse_oid_text(call[1])]
    if op == "refresh":
        return rb.PDU_GET, 0, 0, []
    raise ValueError(call)


def decode_strict(model, dgram):
    """Strict decode (definite, minimal, no trailing bytes at any level).  Encrypted
    msgData is decrypted with the reference cipher first."""
    try:
        return ag.decode_request(model.cfg, dgram, strict=True)
    except rb.BerError as e:
        raise Failure("request-not-well-formed", "emitted datagram is not a strictly valid message: %s [%s]" % (e, bytes(dgram).hex()))


def check_structure(model, call, dgram, expect_pdu=None):
    """C03: version, credentials, PDU type, ids, OIDs in order bound to NULL."""
    cfg = model.cfg
    m = decode_strict(model, dgram)
    ctx = "%s over %s" % (call, cfg.describe())
    if m["version"] != VERSION_NUM[cfg.version]:
        raise Failure("wrong-version", "%s: version %d on the wire" % (ctx, m["version"]))
    if cfg.version != "v3":
        if m["community"] != cfg.community.encode():
            raise Failure("wrong-community", "%s: community %r" % (ctx, m["community"]))
    else:
        if not 0 <= m["msg_id"] <= 2 ** 31 - 1:
            raise Failure("msgid-range", "%s: msgID %d" % (ctx, m["msg_id"]))
        if m["sec_model"] != 3:
            raise Failure("security-model", "%s: msgSecurityModel %d" % (ctx, m["sec_model"]))
        if not 484 <= m["max_size"] <= 2 ** 31 - 1:
            raise Failure("max-size", "%s: msgMaxSize %d" % (ctx, m["max_size"]))
        want_flags = (1 if cfg.auth else 0) | (2 if cfg.priv else 0)
        is_probe = call[0] == "refresh"
        if (m["flags"] & 3) != want_flags or (m["flags"] & ~7) or bool(m["flags"] & 4) != is_probe:
            raise Failure("flags", "%s: msgFlags %#x, expected auth/priv bits %#x reportable=%s" % (ctx, m["flags"], want_flags, is_probe))
        if m["user"] != cfg.user.encode():
            raise Failure("user-name", "%s: msgUserName %r" % (ctx, m["user"]))
        if m["engine_id"] != model.engine_id or m["boots"] != model.boots or m["time"] != model.time:
            raise Failure("engine-state", "%s: USM header carries engine=%s boots=%d time=%d, session view is engine=%s boots=%d time=%d"
                          % (ctx, m["engine_id"].hex(), m["boots"], m["time"], model.engine_id.hex(), model.boots, model.time))
        if (m.get("encrypted") is not None) != bool(cfg.priv):
            raise Failure("privacy-mismatch", "%s: msgData %s although privacy is %s" % (ctx, "encrypted" if m.get("encrypted") is not None else "clear", cfg.priv))
        if m["ctx_engine_id"] != model.engine_id or m["ctx_name"] != b"":
            raise Failure("context", "%s: contextEngineID %s contextName %r" % (ctx, m["ctx_engine_id"].hex(), m["ctx_name"]))
    tag, f1, f2, oids = expect_pdu or expected_pdu(call)
    if m["pdu_tag"] != tag:
        raise Failure("pdu-type", "%s: PDU tag %#x, expected %#x" % (ctx, m["pdu_tag"], tag))
    if not 0 <= m["request_id"] <= 2 ** 31 - 1:
        raise Failure("request-id-range", "%s: request-id %d" % (ctx, m["request_id"]))
    if (m["f1"], m["f2"]) != (f1, f2):
        raise Failure("pdu-fields", "%s: error-status/non-repeaters=%d error-index/max-repetitions=%d, expected %d/%d" % (ctx, m["f1"], m["f2"], f1, f2))
    names = [v[0] for v in m["varbinds"]]
    if names != list(oids):
        raise Failure("oids", "%s: request carries %r" % (ctx, names[:6]))
    for oid, vt, vc in m["varbinds"]:
        if vt != rb.T_NULL or vc != b"":
            raise Failure("value-not-null", "%s: varbind value tag %#x" % (ctx, vt))
    return m


def check_mac(model, m, dgram):
    """C09: auth flag + HMAC-96 over the whole message with the field zeroed."""
    cfg = model.cfg
    ctx = cfg.describe()
    if not cfg.auth:
        if m["flags"] & 1 or m["auth_params"] != b"":
            raise Failure("auth-without-key", "%s: flags %#x authParams %s although no auth key" % (ctx, m["flags"], m["auth_params"].hex()))
        return
    if not m["flags"] & 1:
        raise Failure("auth-flag-clear", "%s: auth key held but flags %#x" % (ctx, m["flags"]))
    if len(m["auth_params"]) != 12:
        raise Failure("mac-length", "%s: msgAuthenticationParameters has %d octets" % (ctx, len(m["auth_params"])))
    s0, s1 = m["auth_span"]
    zeroed = bytes(dgram[:s0]) + b"\x00" * 12 + bytes(dgram[s1:])
    want = ru.hmac96(cfg.auth, cfg.kul_auth(m["engine_id"]), zeroed)
    if want != m["auth_params"]:
        raise Failure("mac-wrong", "%s: MAC %s, HMAC-%s-96 under the key localized to engine %s is %s (auth field at %d, message %d octets)"
                      % (ctx, m["auth_params"].hex(), cfg.auth, m["engine_id"].hex(), want.hex(), s0, len(dgram)))


def check_priv(model, m):
    """C11: ciphertext decrypts to exactly the scoped PDU + less than one block of padding."""
    cfg = model.cfg
    if not cfg.priv:
        return
    block = 8 if cfg.priv == "des" else 16
    pad = m["pad"]
    if len(pad) >= block:
        raise Failure("padding-too-long:" + cfg.priv, "%s: %d octets follow the scoped PDU inside the ciphertext (block %d): %s"
                      % (cfg.describe(), len(pad), block, pad[:48].hex()))
    if cfg.priv == "des" and len(m["encrypted"]) % 8:
        raise Failure("des-length", "%s: DES ciphertext of %d octets" % (cfg.describe(), len(m["encrypted"])))
    if not m["flags"] & 2:
        raise Failure("priv-flag-clear", "%s: flags %#x" % (cfg.describe(), m["flags"]))


def distinct_long_form(dgram):
    """True when some TLV of the message uses a long-form length."""
    from .mutate import scan_tlvs
    return any(dgram[t[1]] & 0x80 for t in scan_tlvs(bytes(dgram)))
