"""Independent reference for USM crypto (RFC 3414, RFC 3826).

* key derivation / HMAC-96: hashlib + hmac
* DES (FIPS 46-3) in CBC mode and AES-128 (FIPS 197) in CFB-128 mode in pure
  Python, self-tested on published vectors at import time.  A failed
  self-test raises SelfTestError (checks exit 2, never 1).
"""
import hashlib
import hmac as _hmac


class SelfTestError(Exception):
    pass


DIGESTS = {"md5": (hashlib.md5, 16), "sha1": (hashlib.sha1, 20)}


import functools


@functools.lru_cache(maxsize=256)
def password_to_master(alg, password):
    """RFC 3414 A.2: hash of the first 2^20 octets of the endlessly repeated password."""
    if len(password) == 0:
        raise ValueError("empty password")
    h = DIGESTS[alg][0]()
    n = 1 << 20
    reps = n // len(password) + 1
    h.update((password * reps)[:n])
    return h.digest()


def localize(alg, master, engine_id):
    return DIGESTS[alg][0](master + engine_id + master).digest()


def hmac96(alg, key, msg):
    return _hmac.new(key, msg, DIGESTS[alg][0]).digest()[:12]


# ---------------------------------------------------------------------------
# DES
# ---------------------------------------------------------------------------
_IP = [58, 50, 42, 34, 26, 18, 10, 2, 60, 52, 44, 36, 28, 20, 12, 4, 62, 54, 46, 38, 30, 22, 14, 6, 64, 56, 48, 40, 32,
       24, 16, 8, 57, 49, 41, 33, 25, 17, 9, 1, 59, 51, 43, 35, 27, 19, 11, 3, 61, 53, 45, 37, 29, 21, 13, 5, 63, 55,
       47, 39, 31, 23, 15, 7]
_FP = [40, 8, 48, 16, 56, 24, 64, 32, 39, 7, 47, 15, 55, 23, 63, 31, 38, 6, 46, 14, 54, 22, 62, 30, 37, 5, 45, 13, 53,
       21, 61, 29, 36, 4, 44, 12, 52, 20, 60, 28, 35, 3, 43, 11, 51, 19, 59, 27, 34, 2, 42, 10, 50, 18, 58, 26, 33, 1,
       41, 9, 49, 17, 57, 25]
_P = [16, 7, 20, 21, 29, 12, 28, 17, 1, 15, 23, 26, 5, 18, 31, 10, 2, 8, 24, 14, 32, 27, 3, 9, 19, 13, 30, 6, 22, 11,
      4, 25]
_PC1 = [57, 49, 41, 33, 25, 17, 9, 1, 58, 50, 42, 34, 26, 18, 10, 2, 59, 51, 43, 35, 27, 19, 11, 3, 60, 52, 44, 36, 63,
        55, 47, 39, 31, 23, 15, 7, 62, 54, 46, 38, 30, 22, 14, 6, 61, 53, 45, 37, 29, 21, 13, 5, 28, 20, 12, 4]
_PC2 = [14, 17, 11, 24, 1, 5, 3, 28, 15, 6, 21, 10, 23, 19, 12, 4, 26, 8, 16, 7, 27, 20, 13, 2, 41, 52, 31, 37, 47, 55,
        30, 40, 51, 45, 33, 48, 44, 49, 39, 56, 34, 53, 46, 42, 50, 36, 29, 32]
_SHIFTS = [1, 1, 2, 2, 2, 2, 2, 2, 1, 2, 2, 2, 2, 2, 2, 1]
_S = [
    [14, 4, 13, 1, 2, 15, 11, 8, 3, 10, 6, 12, 5, 9, 0, 7, 0, 15, 7, 4, 14, 2, 13, 1, 10, 6, 12, 11, 9, 5, 3, 8,
     4, 1, 14, 8, 13, 6, 2, 11, 15, 12, 9, 7, 3, 10, 5, 0, 15, 12, 8, 2, 4, 9, 1, 7, 5, 11, 3, 14, 10, 0, 6, 13],
    [15, 1, 8, 14, 6, 11, 3, 4, 9, 7, 2, 13, 12, 0, 5, 10, 3, 13, 4, 7, 15, 2, 8, 14, 12, 0, 1, 10, 6, 9, 11, 5,
     0, 14, 7, 11, 10, 4, 13, 1, 5, 8, 12, 6, 9, 3, 2, 15, 13, 8, 10, 1, 3, 15, 4, 2, 11, 6, 7, 12, 0, 5, 14, 9],
    [10, 0, 9, 14, 6, 3, 15, 5, 1, 13, 12, 7, 11, 4, 2, 8, 13, 7, 0, 9, 3, 4, 6, 10, 2, 8, 5, 14, 12, 11, 15, 1,
     13, 6, 4, 9, 8, 15, 3, 0, 11, 1, 2, 12, 5, 10, 14, 7, 1, 10, 13, 0, 6, 9, 8, 7, 4, 15, 14, 3, 11, 5, 2, 12],
    [7, 13, 14, 3, 0, 6, 9, 10, 1, 2, 8, 5, 11, 12, 4, 15, 13, 8, 11, 5, 6, 15, 0, 3, 4, 7, 2, 12, 1, 10, 14, 9,
     10, 6, 9, 0, 12, 11, 7, 13, 15, 1, 3, 14, 5, 2, 8, 4, 3, 15, 0, 6, 10, 1, 13, 8, 9, 4, 5, 11, 12, 7, 2, 14],
    [2, 12, 4, 1, 7, 10, 11, 6, 8, 5, 3, 15, 13, 0, 14, 9, 14, 11, 2, 12, 4, 7, 13, 1, 5, 0, 15, 10, 3, 9, 8, 6,
     4, 2, 1, 11, 10, 13, 7, 8, 15, 9, 12, 5, 6, 3, 0, 14, 11, 8, 12, 7, 1, 14, 2, 13, 6, 15, 0, 9, 10, 4, 5, 3],
    [12, 1, 10, 15, 9, 2, 6, 8, 0, 13, 3, 4, 14, 7, 5, 11, 10, 15, 4, 2, 7, 12, 9, 5, 6, 1, 13, 14, 0, 11, 3, 8,
     9, 14, 15, 5, 2, 8, 12, 3, 7, 0, 4, 10, 1, 13, 11, 6, 4, 3, 2, 12, 9, 5, 15, 10, 11, 14, 1, 7, 6, 0, 8, 13],
    [4, 11, 2, 14, 15, 0, 8, 13, 3, 12, 9, 7, 5, 10, 6, 1, 13, 0, 11, 7, 4, 9, 1, 10, 14, 3, 5, 12, 2, 15, 8, 6,
     1, 4, 11, 13, 12, 3, 7, 14, 10, 15, 6, 8, 0, 5, 9, 2, 6, 11, 13, 8, 1, 4, 10, 7, 9, 5, 0, 15, 14, 2, 3, 12],
    [13, 2, 8, 4, 6, 15, 11, 1, 10, 9, 3, 14, 5, 0, 12, 7, 1, 15, 13, 8, 10, 3, 7, 4, 12, 5, 6, 11, 0, 14, 9, 2,
     7, 11, 4, 1, 9, 12, 14, 2, 0, 6, 10, 13, 15, 3, 5, 8, 2, 1, 14, 7, 4, 10, 8, 13, 15, 12, 9, 0, 3, 5, 6, 11],
]


def _permute(v, table, inbits):
    out = 0
    for pos in table:
        out = (out << 1) | ((v >> (inbits - pos)) & 1)
    return out


def _byte_tables(table, inbits):
    """Per-input-byte lookup tables for a permutation."""
    nbytes = inbits // 8
    tabs = []
    for bi in range(nbytes):
        shift = (nbytes - 1 - bi) * 8
        tabs.append([_permute(x << shift, table, inbits) for x in range(256)])
    return tabs


_IP_T = _byte_tables(_IP, 64)
_FP_T = _byte_tables(_FP, 64)
# combined S-box + P tables
_SP = []
for _i in range(8):
    _row = []
    for _x in range(64):
        _r = ((_x >> 4) & 2) | (_x & 1)
        _c = (_x >> 1) & 0xF
        _v = _S[_i][_r * 16 + _c] << (28 - 4 * _i)
        _row.append(_permute(_v, _P, 32))
    _SP.append(_row)


def des_key_schedule(key8):
    k = int.from_bytes(key8, "big")
    cd = _permute(k, _PC1, 64)
    c, d = cd >> 28, cd & 0xFFFFFFF
    ks = []
    for s in _SHIFTS:
        c = ((c << s) | (c >> (28 - s))) & 0xFFFFFFF
        d = ((d << s) | (d >> (28 - s))) & 0xFFFFFFF
        ks.append(_permute((c << 28) | d, _PC2, 56))
    return ks


def _des_block(block, ks):
    v = 0
    for i in range(8):
        v |= _IP_T[i][(block >> (56 - 8 * i)) & 0xFF]
    l, r = v >> 32, v & 0xFFFFFFFF
    sp = _SP
    for k in ks:
        x = ((r & 1) << 33) | (r << 1) | (r >> 31)
        f = 0
        for i in range(8):
            f |= sp[i][((x >> (28 - 4 * i)) ^ (k >> (42 - 6 * i))) & 0x3F]
        l, r = r, l ^ f
    v = (r << 32) | l
    out = 0
    for i in range(8):
        out |= _FP_T[i][(v >> (56 - 8 * i)) & 0xFF]
    return out


def des_cbc_encrypt(key8, iv8, data):
    assert len(data) % 8 == 0
    ks = des_key_schedule(key8)
    prev = int.from_bytes(iv8, "big")
    out = bytearray()
    for i in range(0, len(data), 8):
        prev = _des_block(int.from_bytes(data[i:i + 8], "big") ^ prev, ks)
        out += prev.to_bytes(8, "big")
    return bytes(out)


def des_cbc_decrypt(key8, iv8, data):
    assert len(data) % 8 == 0
    ks = des_key_schedule(key8)[::-1]
    prev = int.from_bytes(iv8, "big")
    out = bytearray()
    for i in range(0, len(data), 8):
        c = int.from_bytes(data[i:i + 8], "big")
        out += (_des_block(c, ks) ^ prev).to_bytes(8, "big")
        prev = c
    return bytes(out)


# ---------------------------------------------------------------------------
# AES-128 (encrypt direction only: CFB needs nothing else)
# ---------------------------------------------------------------------------
def _xtime(a):
    a <<= 1
    return (a ^ 0x11B) & 0xFF if a & 0x100 else a


def _gmul(a, b):
    r = 0
    while b:
        if b & 1:
            r ^= a
        a = _xtime(a)
        b >>= 1
    return r


def _make_sbox():
    inv = [0] * 256
    for a in range(1, 256):
        for b in range(1, 256):
            if _gmul(a, b) == 1:
                inv[a] = b
                break
    sb = []
    for a in range(256):
        x = inv[a]
        y = x
        for _ in range(4):
            x = ((x << 1) | (x >> 7)) & 0xFF
            y ^= x
        sb.append(y ^ 0x63)
    return sb


_SBOX = _make_sbox()
_M2 = [_gmul(x, 2) for x in range(256)]
_M3 = [_gmul(x, 3) for x in range(256)]


def aes128_key_schedule(key):
    assert len(key) == 16
    w = [list(key[i:i + 4]) for i in range(0, 16, 4)]
    rc = 1
    for i in range(4, 44):
        t = list(w[i - 1])
        if i % 4 == 0:
            t = t[1:] + t[:1]
            t = [_SBOX[x] for x in t]
            t[0] ^= rc
            rc = _xtime(rc)
        w.append([a ^ b for a, b in zip(w[i - 4], t)])
    return [sum(w[4 * r:4 * r + 4], []) for r in range(11)]


def aes128_encrypt_block(block, rks):
    s = [a ^ b for a, b in zip(block, rks[0])]
    for rnd in range(1, 11):
        s = [_SBOX[x] for x in s]
        # shift rows (state is column-major: s[4*c+r])
        s = [s[4 * ((c + r) % 4) + r] for c in range(4) for r in range(4)]
        if rnd != 10:
            t = []
            for c in range(4):
                a0, a1, a2, a3 = s[4 * c:4 * c + 4]
                t += [_M2[a0] ^ _M3[a1] ^ a2 ^ a3, a0 ^ _M2[a1] ^ _M3[a2] ^ a3, a0 ^ a1 ^ _M2[a2] ^ _M3[a3],
                      _M3[a0] ^ a1 ^ a2 ^ _M2[a3]]
            s = t
        s = [a ^ b for a, b in zip(s, rks[rnd])]
    return bytes(s)


def aes128_cfb_encrypt(key, iv, data):
    rks = aes128_key_schedule(key)
    prev = bytes(iv)
    out = bytearray()
    for i in range(0, len(data), 16):
        ks = aes128_encrypt_block(prev, rks)
        blk = bytes(a ^ b for a, b in zip(data[i:i + 16], ks))
        out += blk
        prev = blk
    return bytes(out)


def aes128_cfb_decrypt(key, iv, data):
    rks = aes128_key_schedule(key)
    prev = bytes(iv)
    out = bytearray()
    for i in range(0, len(data), 16):
        ks = aes128_encrypt_block(prev, rks)
        c = bytes(data[i:i + 16])
        out += bytes(a ^ b for a, b in zip(c, ks))
        prev = c
    return bytes(out)


# ---------------------------------------------------------------------------
# USM privacy (RFC 3414 section 8, RFC 3826)
# ---------------------------------------------------------------------------
def des_iv(kul, salt8):
    return bytes(a ^ b for a, b in zip(kul[8:16], salt8))


def usm_des_encrypt(kul, salt8, plaintext):
    pad = (-len(plaintext)) % 8
    return des_cbc_encrypt(kul[:8], des_iv(kul, salt8), plaintext + b"\x00" * pad)


def usm_des_decrypt(kul, salt8, ciphertext):
    return des_cbc_decrypt(kul[:8], des_iv(kul, salt8), ciphertext)


def aes_iv(boots, time, salt8):
    return (boots & 0xFFFFFFFF).to_bytes(4, "big") + (time & 0xFFFFFFFF).to_bytes(4, "big") + bytes(salt8)


def usm_aes_encrypt(kul, boots, time, salt8, plaintext):
    return aes128_cfb_encrypt(kul[:16], aes_iv(boots, time, salt8), plaintext)


def usm_aes_decrypt(kul, boots, time, salt8, ciphertext):
    return aes128_cfb_decrypt(kul[:16], aes_iv(boots, time, salt8), ciphertext)


# ---------------------------------------------------------------------------
# Self test
# ---------------------------------------------------------------------------
def _selftest():
    h = bytes.fromhex
    # DES: classic worked example + FIPS 81 CBC sample
    ks = des_key_schedule(h("133457799BBCDFF1"))
    if _des_block(0x0123456789ABCDEF, ks) != 0x85E813540F0AB405:
        raise SelfTestError("DES block")
    pt = b"Now is the time for all "
    ct = des_cbc_encrypt(h("0123456789abcdef"), h("1234567890abcdef"), pt)
    if ct != h("e5c7cdde872bf27c43e934008c389c0f683788499a7c05f6"):
        raise SelfTestError("DES-CBC FIPS 81")
    if des_cbc_decrypt(h("0123456789abcdef"), h("1234567890abcdef"), ct) != pt:
        raise SelfTestError("DES-CBC decrypt")
    # AES: FIPS 197 C.1, SP 800-38A F.3.13 (CFB128-AES128)
    rks = aes128_key_schedule(h("000102030405060708090a0b0c0d0e0f"))
    if aes128_encrypt_block(h("00112233445566778899aabbccddeeff"), rks) != h("69c4e0d86a7b0430d8cdb78070b4c55a"):
        raise SelfTestError("AES block")
    key = h("2b7e151628aed2a6abf7158809cf4f3c")
    iv = h("000102030405060708090a0b0c0d0e0f")
    pt = h("6bc1bee22e409f96e93d7e117393172aae2d8a571e03ac9c9eb76fac45af8e51")
    ct = h("3b3fd92eb72dad20333449f8e83cfb4ac8a64537a0b3a93fcde3cdad9f1ce58b")
    if aes128_cfb_encrypt(key, iv, pt) != ct or aes128_cfb_decrypt(key, iv, ct) != pt:
        raise SelfTestError("AES-CFB SP800-38A")
    # RFC 3414 A.3 key vectors
    ku = password_to_master("md5", b"maplesyrup")
    if ku != h("9faf3283884e92834ebc9847d8edd963"):
        raise SelfTestError("A.3.1 Ku")
    if localize("md5", ku, h("000000000000000000000002")) != h("526f5eed9fcce26f8964c2930787d82b"):
        raise SelfTestError("A.3.1 Kul")
    ku = password_to_master("sha1", b"maplesyrup")
    if ku != h("9fb5cc0381497b3793528939ff788d5d79145211"):
        raise SelfTestError("A.3.2 Ku")
    if localize("sha1", ku, h("000000000000000000000002")) != h("6695febc9288e36282235fc7151f128497b38f3f"):
        raise SelfTestError("A.3.2 Kul")


_selftest()
