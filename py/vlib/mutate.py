"""Byte-level and structure-aware mutations of BER messages (for C01/C16)."""
from . import refber as rb


def scan_tlvs(b, off=0, end=None, depth=0, out=None):
    """Lenient recursive scan: list of (tag_off, len_off, content_off, content_end, depth)
    for everything that looks like a TLV.  Constructed tags and OCTET STRINGs
    (which may wrap USM parameters / plaintext) are descended into."""
    if out is None:
        out = []
    if end is None:
        end = len(b)
    p = off
    while p + 2 <= end and len(out) < 400:
        tag = b[p]
        l0 = b[p + 1]
        q = p + 2
        if l0 < 0x80:
            ln = l0
        else:
            k = l0 & 0x7F
            if k == 0 or k > 3 or q + k > end:
                break
            ln = int.from_bytes(b[q:q + k], "big")
            q += k
        if q + ln > end:
            break
        out.append((p, p + 1, q, q + ln, depth))
        if (tag & 0x20 or tag == 0x04) and ln >= 2 and depth < 8:
            scan_tlvs(b, q, q + ln, depth + 1, out)
        p = q + ln
    return out


LEN_ATTACKS = [0x80, 0x81, 0x82, 0x83, 0x84, 0x88, 0xFF, 0x7F, 0x00, 0x01]
# whole length fields: values near 2^32 / 2^63 / 2^64 (pointer arithmetic on them must not wrap)
HUGE_LENGTHS = [bytes([0x88]) + b"\xff" * 8, bytes([0x88]) + b"\xff" * 7 + b"\xf0", bytes([0x88]) + b"\xff" * 7 + b"\xfc",
                bytes([0x89, 0x01]) + b"\xff" * 8, bytes([0x84]) + b"\xff" * 4, bytes([0x88, 0x80]) + b"\x00" * 7,
                bytes([0x88, 0x7f]) + b"\xff" * 7, bytes([0x87]) + b"\xff" * 7, bytes([0x85, 0x01, 0, 0, 0, 0]),
                bytes([0x88]) + b"\xff" * 7 + b"\xfe", bytes([0x90]) + b"\xff" * 16, bytes([0x88, 0, 0, 0, 0, 0, 0, 0, 5])]


def mutate_bytes(u, data, n=None):
    """Apply 1..3 mutations chosen by the data provider `u`.  Returns (bytes, [descriptions])."""
    b = bytearray(data)
    notes = []
    n = n or (1 + u.below(3))
    for _ in range(n):
        if not b:
            b = bytearray(u.take(1 + u.below(8)))
            notes.append("random")
            continue
        tl = scan_tlvs(bytes(b))
        k = u.below(14)
        if k >= 12 and tl:
            t = tl[u.below(len(tl))]
            h = u.choice(HUGE_LENGTHS)
            b[t[1]:t[2]] = h
            notes.append("hugelen@%d:%s" % (t[1], h.hex()))
        elif k == 0:
            cut = u.below(len(b) + 1)
            b = b[:cut]
            notes.append("truncate@%d" % cut)
        elif k == 1 and tl:
            t = tl[u.below(len(tl))]
            v = u.choice(LEN_ATTACKS)
            b[t[1]] = v
            notes.append("len[%d]=%02x" % (t[1], v))
        elif k == 2 and tl:
            t = tl[u.below(len(tl))]
            b[t[0]] = (b[t[0]] & 0xE0) | 0x1F
            notes.append("longtag@%d" % t[0])
        elif k == 3 and tl:
            t = tl[u.below(len(tl))]
            ins = u.choice([b"\x30\x00", b"\x06\x00", b"\x0d\x00", b"\x0d\x01\x05", b"\x06\x01\x2b", b"\x1f\x80", b"\x30\x81",
                            b"\x30\x02\x06\x00", b"\x30\x04\x0d\x00\x05\x00", b"\x09\x01\x80", b"\x09\x02\x83\x05", b"\x02\x00",
                            b"\x04\x84\xff\xff\xff\xff", b"\x30\x84\x7f\xff\xff\xff"])
            pos = u.choice([t[2], t[3]])
            b[pos:pos] = ins
            notes.append("insert@%d:%s" % (pos, ins.hex()))
        elif k == 4 and tl:
            t = tl[u.below(len(tl))]
            # grow / shrink the declared length by a small delta (keeps the form)
            d = u.choice([1, 2, 3, 8, 127, -1, -2])
            if b[t[1]] < 0x80:
                b[t[1]] = max(0, min(0x7F, b[t[1]] + d))
            else:
                kk = b[t[1]] & 0x7F
                if kk and t[1] + kk < len(b):
                    b[t[1] + kk] = (b[t[1] + kk] + d) & 0xFF
            notes.append("lendelta@%d:%d" % (t[1], d))
        elif k == 5 and tl:
            t = tl[u.below(len(tl))]
            newtag = u.choice([0x02, 0x04, 0x05, 0x06, 0x09, 0x0D, 0x30, 0x40, 0x41, 0x46, 0x80, 0x81, 0x82, 0xA0, 0xA2, 0xA8, 0xA3, 0x01])
            b[t[0]] = newtag
            notes.append("tag@%d=%02x" % (t[0], newtag))
        elif k == 6 and tl:
            t = tl[u.below(len(tl))]
            del b[t[2]:t[3]]
            notes.append("emptycontent@%d" % t[0])
        elif k == 7 and tl:
            t = tl[u.below(len(tl))]
            del b[t[0]:t[3]]
            notes.append("delete@%d" % t[0])
        elif k == 8:
            pos = u.below(len(b))
            b[pos] ^= 1 << u.below(8)
            notes.append("flip@%d" % pos)
        elif k == 9:
            pos = u.below(len(b))
            b[pos] = u.u8()
            notes.append("set@%d" % pos)
        elif k == 10 and tl:
            t = tl[u.below(len(tl))]
            # duplicate an element
            b[t[3]:t[3]] = b[t[0]:t[3]]
            notes.append("dup@%d" % t[0])
        else:
            b += u.take(1 + u.below(6))
            notes.append("append")
    return bytes(b), notes
