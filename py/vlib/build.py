"""Build the engines from the *current* /repo working tree (or $VERIF_REPO).

E1: release build of the real extension -> importable package dir.
E2: "mirror crate": /repo/src compiled as an ordinary crate (through #[path]
    modules) together with the harness in /verif/rs/harness; produces runner
    binaries.
E3: cargo-fuzz targets over the same mirror crate.

Everything is cached under /verif/.build keyed by a hash of the sources so an
unchanged tree costs ~nothing and a changed tree pays each build once.  A build
failure is reported as BuildError (checks turn that into exit 2, never into a
VIOLATION).
"""
import fcntl
import hashlib
import os
import re
import shutil
import subprocess
import sys
import time

VERIF = os.path.dirname(os.path.dirname(os.path.dirname(os.path.abspath(__file__))))
REPO = os.path.abspath(os.environ.get("VERIF_REPO", "/repo"))
# scratch copies (mutation self-tests, VERIF_REPO=...) get their own mirror crate / target dirs so that several can be
# built at the same time; the registered commands always run on /repo and use the plain names
_SFX = "" if REPO == "/repo" else "-" + hashlib.sha256(REPO.encode()).hexdigest()[:8]
_KEEP = int(os.environ.get("VERIF_CACHE_KEEP", "4"))
BUILD = os.path.join(VERIF, ".build")
PYLIBDIR = "/root/.pyenv/versions/3.11.7/lib"
PYO3_PYTHON = "/root/.pyenv/versions/3.11.7/bin/python3"


class BuildError(Exception):
    pass


def _env():
    e = dict(os.environ)
    e["CARGO_NET_OFFLINE"] = "true"
    e["PYO3_PYTHON"] = PYO3_PYTHON
    e.setdefault("CARGO_TERM_COLOR", "never")
    # the harness embeds CPython
    e["LD_LIBRARY_PATH"] = PYLIBDIR + (":" + e["LD_LIBRARY_PATH"] if e.get("LD_LIBRARY_PATH") else "")
    return e


def _files(root, exts):
    out = []
    for d, dn, fn in os.walk(root):
        dn[:] = sorted(x for x in dn if x not in ("__pycache__", "target", ".git"))
        for f in sorted(fn):
            if f.endswith(exts):
                out.append(os.path.join(d, f))
    return out


_hash_cache = {}


def tree_hash(kind="all"):
    """Hash of everything a build depends on in the repo tree."""
    if kind in _hash_cache:
        return _hash_cache[kind]
    h = hashlib.sha256()
    h.update(REPO.encode())
    files = [os.path.join(REPO, "Cargo.toml"), os.path.join(REPO, "Cargo.lock")]
    files += _files(os.path.join(REPO, "src"), (".rs", ".py", ".pyi"))
    for f in files:
        try:
            with open(f, "rb") as fh:
                data = fh.read()
        except OSError:
            data = b"<missing>"
        h.update(os.path.relpath(f, REPO).encode() + b"\0" + str(len(data)).encode() + b"\0" + data)
    _hash_cache[kind] = h.hexdigest()[:16]
    return _hash_cache[kind]


def harness_hash():
    h = hashlib.sha256()
    for f in _files(os.path.join(VERIF, "rs"), (".rs", ".toml")):
        with open(f, "rb") as fh:
            h.update(f.encode() + b"\0" + fh.read())
    return h.hexdigest()[:16]


class _Lock:
    def __init__(self, name):
        os.makedirs(BUILD, exist_ok=True)
        self.path = os.path.join(BUILD, name + ".lock")

    def __enter__(self):
        self.fh = open(self.path, "w")
        fcntl.flock(self.fh, fcntl.LOCK_EX)
        return self

    def __exit__(self, *a):
        fcntl.flock(self.fh, fcntl.LOCK_UN)
        self.fh.close()


def _run(cmd, cwd=None, env=None, what="build"):
    t0 = time.time()
    p = subprocess.run(cmd, cwd=cwd, env=env or _env(), stdout=subprocess.PIPE, stderr=subprocess.STDOUT, text=True)
    if p.returncode != 0:
        tail = "\n".join(p.stdout.splitlines()[-60:])
        raise BuildError("%s failed (%s, exit %d):\n%s" % (what, " ".join(cmd), p.returncode, tail))
    sys.stderr.write("[build] %s ok in %.1fs\n" % (what, time.time() - t0))
    return p.stdout


def _forget_fingerprints(target, profile_dirs=("release",)):
    """Force cargo to rebuild the gufo_snmp crate itself (not its dependencies): a new tree hash
    means the sources changed, and cargo's mtime-based freshness check must not be able to
    disagree (e.g. files restored with old timestamps)."""
    import glob
    for pd in profile_dirs:
        for f in glob.glob(os.path.join(target, pd, ".fingerprint", "gufo_snmp-*")):
            shutil.rmtree(f, ignore_errors=True)


def _evict(parent, keep):
    """Keep only the `keep` most recently used sub-directories of parent."""
    try:
        ents = [os.path.join(parent, x) for x in os.listdir(parent)]
    except OSError:
        return
    ents = [x for x in ents if os.path.isdir(x)]
    ents.sort(key=lambda p: os.path.getmtime(p), reverse=True)
    for p in ents[keep:]:
        shutil.rmtree(p, ignore_errors=True)


# ---------------------------------------------------------------------------
# E1: the real extension
# ---------------------------------------------------------------------------
def ensure_ext():
    """Return a directory to put on sys.path that holds gufo.snmp with the
    release-built _fast.so of the current tree."""
    if os.environ.get("VERIF_PKG_OVERRIDE"):
        # mutation self-tests of the Python layer only (tools/pymut.py): a prepared package directory
        return os.environ["VERIF_PKG_OVERRIDE"]
    h = tree_hash()
    pkg = os.path.join(BUILD, "pkg", h)
    ok = os.path.join(pkg, ".ok")
    if os.path.exists(ok):
        os.utime(pkg)
        return pkg
    with _Lock("ext"):
        if os.path.exists(ok):
            return pkg
        # one target dir per repo *path*: cargo keys fingerprints by package path but uplifts every
        # package's cdylib to the same target/release/libgufo_snmp.so, so sharing a target dir between
        # two checkouts can hand back the other checkout's library for a "fresh" build
        target = os.path.join(BUILD, "ext-target-" + hashlib.sha256(REPO.encode()).hexdigest()[:8])
        env = _env()
        env["CARGO_TARGET_DIR"] = target
        _forget_fingerprints(target)
        _run(["cargo", "build", "--release", "--offline", "--manifest-path", os.path.join(REPO, "Cargo.toml")],
             env=env, what="extension (release)")
        so = os.path.join(target, "release", "libgufo_snmp.so")
        if not os.path.exists(so):
            raise BuildError("no libgufo_snmp.so produced")
        tmp = pkg + ".tmp%d" % os.getpid()
        shutil.rmtree(tmp, ignore_errors=True)
        os.makedirs(os.path.join(tmp, "gufo"))
        shutil.copytree(os.path.join(REPO, "src", "gufo", "snmp"), os.path.join(tmp, "gufo", "snmp"),
                        ignore=shutil.ignore_patterns("__pycache__", "*.so"))
        shutil.copy(so, os.path.join(tmp, "gufo", "snmp", "_fast.so"))
        open(os.path.join(tmp, ".ok"), "w").write(h)
        shutil.rmtree(pkg, ignore_errors=True)
        os.rename(tmp, pkg)
        _evict(os.path.join(BUILD, "pkg"), _KEEP)
    return pkg


def ensure_pyonly():
    """Package dir with only the pure-Python part (for C19: no extension needed).
    policer.py imports nothing from _fast, but gufo.snmp.__init__ does, so the
    module is loaded by path by the check itself."""
    if os.environ.get("VERIF_PKG_OVERRIDE"):
        return os.path.join(os.environ["VERIF_PKG_OVERRIDE"], "gufo", "snmp")
    return os.path.join(REPO, "src", "gufo", "snmp")


# ---------------------------------------------------------------------------
# E2: mirror crate
# ---------------------------------------------------------------------------
def _deps_from_repo():
    txt = open(os.path.join(REPO, "Cargo.toml")).read()
    m = re.search(r"^\[dependencies\]\s*\n(.*?)(?=^\[)", txt, re.S | re.M)
    if not m:
        raise BuildError("cannot find [dependencies] in repo Cargo.toml")
    deps = m.group(1)
    deps = deps.replace('"extension-module"', '"auto-initialize"')
    return deps


def _gen_lib_rs():
    src = open(os.path.join(REPO, "src", "lib.rs")).read()

    def repl(m):
        name = m.group(2)
        p1 = os.path.join(REPO, "src", name + ".rs")
        p2 = os.path.join(REPO, "src", name, "mod.rs")
        p = p1 if os.path.exists(p1) else p2
        return '#[path = "%s"]\npub mod %s;' % (p, name)

    out = re.sub(r"^(pub\s+)?mod\s+([a-z_0-9]+)\s*;", repl, src, flags=re.M)
    out = "#![allow(dead_code, unused_imports, clippy::all)]\n" + out
    out += '\n#[path = "%s"]\npub mod verif;\n' % os.path.join(VERIF, "rs", "harness", "mod.rs")
    return out


MIRROR_BINS = ["rsprop"]


def _write_if_changed(path, data):
    try:
        if open(path).read() == data:
            return
    except OSError:
        pass
    os.makedirs(os.path.dirname(path), exist_ok=True)
    open(path, "w").write(data)


def _gen_mirror():
    d = os.path.join(BUILD, "mirror" + _SFX)
    os.makedirs(os.path.join(d, "src"), exist_ok=True)
    bins = "".join('\n[[bin]]\nname = "%s"\npath = "%s"\n' % (b, os.path.join(VERIF, "rs", "bins", b + ".rs"))
                   for b in MIRROR_BINS)
    cargo = """[package]
edition = "2024"
name = "gufo_snmp"
version = "0.0.0"

[lib]
name = "gufo_snmp"
path = "src/lib.rs"
crate-type = ["rlib"]
%s
[dependencies]
%s
proptest = { version = "1", default-features = false, features = ["std"] }

[profile.release]
opt-level = 3
overflow-checks = false
debug-assertions = false
debug = 1

[workspace]
""" % (bins, _deps_from_repo())
    _write_if_changed(os.path.join(d, "Cargo.toml"), cargo)
    _write_if_changed(os.path.join(d, "src", "lib.rs"), _gen_lib_rs())
    lock = os.path.join(d, "Cargo.lock")
    if not os.path.exists(lock):
        seed = os.path.join(VERIF, "rs", "mirror.Cargo.lock")
        shutil.copy(seed if os.path.exists(seed) else os.path.join(REPO, "Cargo.lock"), lock)
    os.makedirs(os.path.join(d, ".cargo"), exist_ok=True)
    _write_if_changed(os.path.join(d, ".cargo", "config.toml"), "[net]\noffline = true\n")
    return d


def ensure_mirror():
    """Build runner binaries; return dict name->path."""
    h = tree_hash() + "-" + harness_hash()
    bdir = os.path.join(BUILD, "bin", h)
    ok = os.path.join(bdir, ".ok")
    if os.path.exists(ok):
        os.utime(bdir)
        return {b: os.path.join(bdir, b) for b in MIRROR_BINS}
    with _Lock("mirror" + _SFX):
        if not os.path.exists(ok):
            d = _gen_mirror()
            env = _env()
            env["CARGO_TARGET_DIR"] = os.path.join(BUILD, "mirror-target" + _SFX)
            _forget_fingerprints(env["CARGO_TARGET_DIR"])
            _run(["cargo", "build", "--release", "--offline", "--bins"], cwd=d, env=env, what="mirror crate (E2)")
            tmp = bdir + ".tmp%d" % os.getpid()
            shutil.rmtree(tmp, ignore_errors=True)
            os.makedirs(tmp)
            for b in MIRROR_BINS:
                shutil.copy(os.path.join(env["CARGO_TARGET_DIR"], "release", b), os.path.join(tmp, b))
            open(os.path.join(tmp, ".ok"), "w").write(h)
            shutil.rmtree(bdir, ignore_errors=True)
            os.rename(tmp, bdir)
            _evict(os.path.join(BUILD, "bin"), _KEEP)
    return {b: os.path.join(bdir, b) for b in MIRROR_BINS}


# ---------------------------------------------------------------------------
# E3: fuzz targets
# ---------------------------------------------------------------------------
FUZZ_TARGETS = ["decoders", "buffer_ops", "recv_path"]


def ensure_fuzz():
    h = tree_hash() + "-" + harness_hash()
    bdir = os.path.join(BUILD, "fuzzbin", h)
    ok = os.path.join(bdir, ".ok")
    if os.path.exists(ok):
        os.utime(bdir)
        return {b: os.path.join(bdir, b) for b in FUZZ_TARGETS}
    with _Lock("fuzz" + _SFX):
        if not os.path.exists(ok):
            with _Lock("mirror" + _SFX):
                d = _gen_mirror()
            fd = os.path.join(d, "fuzz")
            os.makedirs(fd, exist_ok=True)
            bins = "".join('\n[[bin]]\nname = "%s"\npath = "%s"\ntest = false\ndoc = false\nbench = false\n'
                           % (b, os.path.join(VERIF, "rs", "fuzz", b + ".rs")) for b in FUZZ_TARGETS)
            cargo = """[package]
name = "gufo_snmp-fuzz"
version = "0.0.0"
publish = false
edition = "2024"

[package.metadata]
cargo-fuzz = true

[dependencies]
libfuzzer-sys = "0.4"
gufo_snmp = { path = ".." }
%s
[workspace]
""" % bins
            _write_if_changed(os.path.join(fd, "Cargo.toml"), cargo)
            lock = os.path.join(fd, "Cargo.lock")
            if not os.path.exists(lock):
                seed = os.path.join(VERIF, "rs", "fuzz.Cargo.lock")
                if os.path.exists(seed):
                    shutil.copy(seed, lock)
            os.makedirs(os.path.join(fd, ".cargo"), exist_ok=True)
            _write_if_changed(os.path.join(fd, ".cargo", "config.toml"), "[net]\noffline = true\n")
            env = _env()
            env["CARGO_TARGET_DIR"] = os.path.join(BUILD, "fuzz-target" + _SFX)
            _forget_fingerprints(env["CARGO_TARGET_DIR"], ("x86_64-unknown-linux-gnu/release",))
            _run(["cargo", "+nightly", "fuzz", "build", "-O", "--fuzz-dir", fd], cwd=d, env=env, what="fuzz targets (E3)")
            tmp = bdir + ".tmp%d" % os.getpid()
            shutil.rmtree(tmp, ignore_errors=True)
            os.makedirs(tmp)
            for b in FUZZ_TARGETS:
                shutil.copy(os.path.join(env["CARGO_TARGET_DIR"], "x86_64-unknown-linux-gnu", "release", b),
                            os.path.join(tmp, b))
            open(os.path.join(tmp, ".ok"), "w").write(h)
            shutil.rmtree(bdir, ignore_errors=True)
            os.rename(tmp, bdir)
            _evict(os.path.join(BUILD, "fuzzbin"), 3)
    return {b: os.path.join(bdir, b) for b in FUZZ_TARGETS}


def run_env():
    return _env()
