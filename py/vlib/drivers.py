"""Drivers for the real extension: load the freshly built package, raw
non-blocking client wrapper, sync/async front-end helpers."""
import sys
import types

from . import agent as ag
from . import build

_G = None


class _Ext:
    """Transparent proxy around the extension module, its classes and their instances, as the *harness* sees them (the
    library's own Python layer keeps using the real objects).  It only marks exceptions that come out of the extension
    (`_from_extension`), so that one which no check anticipated can be told from a fault of the harness itself
    (core.library_raised)."""
    __slots__ = ("_o",)

    def __init__(self, o):
        object.__setattr__(self, "_o", o)

    def __getattr__(self, name):
        return _ext_wrap(getattr(object.__getattribute__(self, "_o"), name))

    def __setattr__(self, name, value):
        setattr(object.__getattribute__(self, "_o"), name, value)

    def __call__(self, *a, **k):
        a = tuple(_ext_unwrap(x) for x in a)
        k = {n: _ext_unwrap(v) for n, v in k.items()}
        try:
            r = object.__getattribute__(self, "_o")(*a, **k)
        except BaseException as e:  # noqa: BLE001
            try:
                e._from_extension = True
            except Exception:  # noqa: BLE001
                pass
            raise
        return _ext_wrap_result(r)

    def __repr__(self):
        return repr(object.__getattribute__(self, "_o"))


_EXT_CLASSES = set()


def _ext_unwrap(x):
    return object.__getattribute__(x, "_o") if isinstance(x, _Ext) else x


def _ext_wrap(v):
    if isinstance(v, type) and issubclass(v, BaseException):
        return v
    if callable(v):
        return _Ext(v)
    return v


def _ext_wrap_result(r):
    return _Ext(r) if type(r) in _EXT_CLASSES else r


def load():
    """Import gufo.snmp built from the current tree (once per process)."""
    global _G
    if _G is not None:
        return _G
    pkg = build.ensure_ext()
    if pkg not in sys.path:
        sys.path.insert(0, pkg)
    import gufo.snmp as g
    from gufo.snmp import _fast, user
    from gufo.snmp import async_client, sync_client
    G = types.SimpleNamespace()
    G.pkg = g
    for v in vars(_fast).values():
        if isinstance(v, type) and not issubclass(v, BaseException):
            _EXT_CLASSES.add(v)
    G.fast = _Ext(_fast)
    G.fast_real = _fast
    G.user = user
    G.sync = sync_client
    G.aio = async_client
    G.SnmpVersion = g.SnmpVersion
    G.SnmpError = _fast.SnmpError
    G.SnmpDecodeError = _fast.SnmpDecodeError
    G.SnmpEncodeError = _fast.SnmpEncodeError
    G.SnmpAuthError = _fast.SnmpAuthError
    G.NoSuchInstance = _fast.NoSuchInstance
    _G = G
    return G


def documented_exception(G, e):
    """C01's allowed outcome classes."""
    return isinstance(e, Exception) and isinstance(
        e, (G.SnmpError, TimeoutError, BlockingIOError, OSError, ValueError, StopIteration, StopAsyncIteration,
            RuntimeError, NotImplementedError))


class NbClient:
    """Raw `_fast` socket with timeout_ns=0 bound to an NbLink agent."""

    def __init__(self, G, cfg, link, engine_id=None):
        self.G = G
        self.cfg = cfg
        self.link = link
        self.sock = ag.make_raw(G.fast, cfg, link.port, 0, engine_id)

    def make_iter(self, oid, max_rep=None):
        if max_rep is None:
            return self.G.fast.GetIter(oid)
        return self.G.fast.GetIter(oid, max_rep)

    def send(self, op, arg=None):
        s = self.sock
        if op == "get":
            s.send_get(arg)
        elif op == "get_many":
            s.send_get_many(arg)
        elif op == "getnext":
            s.send_get_next(arg)
        elif op == "getbulk":
            s.send_get_bulk(arg)
        elif op == "refresh":
            s.send_refresh()
        else:
            raise ValueError(op)

    def recv(self, op, arg=None):
        s = self.sock
        if op == "get":
            return s.recv_get()
        if op == "get_many":
            return s.recv_get_many()
        if op == "getnext":
            return s.recv_get_next(arg)
        if op == "getbulk":
            return s.recv_get_bulk(arg)
        if op == "refresh":
            return s.recv_refresh()
        raise ValueError(op)

    def request(self, op, arg=None):
        """send + return the single datagram the agent received (or list)."""
        self.send(op, arg)
        return self.link.recv_all()


VERSION_ENUM = {"v1": "v1", "v2c": "v2c", "v3": "v3"}


def sync_session(G, cfg, port, timeout=1.0, engine_id=None, **kw):
    ver = getattr(G.SnmpVersion, cfg.version)
    kw = dict(kw)
    # "_omit_version": rely on the documented autodetection (v2c without a user, v3 with one) where it gives this version
    vkw = {} if (kw.pop("_omit_version", False) and cfg.version in ("v2c", "v3")) else {"version": ver}
    if cfg.version == "v3":
        eid = cfg.engine_id if engine_id is None else engine_id
        return G.sync.SnmpSession("127.0.0.1", port=port, user=cfg.make_user(G, eid), engine_id=eid or None, timeout=timeout, **vkw, **kw)
    return G.sync.SnmpSession("127.0.0.1", port=port, community=cfg.community, timeout=timeout, **vkw, **kw)


def async_session(G, cfg, port, timeout=1.0, engine_id=None, **kw):
    ver = getattr(G.SnmpVersion, cfg.version)
    kw = dict(kw)
    # "_omit_version": rely on the documented autodetection (v2c without a user, v3 with one) where it gives this version
    vkw = {} if (kw.pop("_omit_version", False) and cfg.version in ("v2c", "v3")) else {"version": ver}
    if cfg.version == "v3":
        eid = cfg.engine_id if engine_id is None else engine_id
        return G.aio.SnmpSession("127.0.0.1", port=port, user=cfg.make_user(G, eid), engine_id=eid or None, timeout=timeout, **vkw, **kw)
    return G.aio.SnmpSession("127.0.0.1", port=port, community=cfg.community, timeout=timeout, **vkw, **kw)


# ---------------------------------------------------------------------------
# One API call against a scripted agent, through any of the three drivers
# ---------------------------------------------------------------------------
class Outcome:
    """Result of one API call.
    kind: 'ok' (value) | 'exc' (exception, partial) | 'runaway' (partial; walk exceeded step limit)"""

    def __init__(self, kind, value=None, exc=None, partial=None, requests=None):
        self.kind = kind
        self.value = value
        self.exc = exc
        self.partial = partial
        self.requests = requests or []

    def __repr__(self):
        if self.kind == "ok":
            return "ok(%r)" % (self.value,)
        if self.kind == "exc":
            return "exc(%s: %s; partial=%r)" % (type(self.exc).__name__, self.exc, self.partial)
        return "runaway(%r)" % (self.partial,)


class HarnessError(Exception):
    """A failure inside the scripted agent (a bug in the check, never a finding)."""


def _nb_pump(link, handler, requests):
    for d in link.recv_all():
        requests.append(d)
        try:
            outs = handler(d) or []
        except BaseException as e:  # noqa: BLE001
            import traceback
            raise HarnessError("agent handler failed: %r\n%s" % (e, traceback.format_exc())) from e
        for out in outs:
            link.send(out)


def _nb_one(c, link, call, handler, requests, max_steps):
    op = call[0]
    n0 = len(requests)
    if op in ("get", "get_many", "refresh"):
        try:
            c.send(op, call[1] if len(call) > 1 else None)
            _nb_pump(link, handler, requests)
            return Outcome("ok", c.recv(op), requests=requests[n0:])
        except HarnessError:
            raise
        except BaseException as e:  # noqa: BLE001 - classification is the caller's job
            _nb_pump(link, lambda d: [], requests)
            return Outcome("exc", exc=e, requests=requests[n0:])
    out = []
    try:
        if op == "getnext":
            it = c.make_iter(call[1])
            for _ in range(max_steps):
                c.send("getnext", it)
                _nb_pump(link, handler, requests)
                try:
                    out.append(c.recv("getnext", it))
                except StopAsyncIteration:
                    return Outcome("ok", out, requests=requests[n0:])
            return Outcome("runaway", partial=out, requests=requests[n0:])
        if op == "getbulk":
            it = c.make_iter(call[1], call[2])
            for _ in range(max_steps):
                c.send("getbulk", it)
                _nb_pump(link, handler, requests)
                try:
                    buf = c.recv("getbulk", it)
                except StopAsyncIteration:
                    return Outcome("ok", out, requests=requests[n0:])
                if not buf:
                    return Outcome("ok", out, requests=requests[n0:])
                for v in buf:
                    if v is None:
                        return Outcome("ok", out, requests=requests[n0:])
                    out.append(v)
            return Outcome("runaway", partial=out, requests=requests[n0:])
        if op in ("getnext1", "getbulk1"):
            # a single GetNext / GetBulk exchange (one request, one recv) on a fresh iterator
            it = c.make_iter(call[1]) if op == "getnext1" else c.make_iter(call[1], call[2])
            c.send(op[:-1], it)
            _nb_pump(link, handler, requests)
            return Outcome("ok", c.recv(op[:-1], it), requests=requests[n0:])
    except HarnessError:
        raise
    except BaseException as e:  # noqa: BLE001
        _nb_pump(link, lambda d: [], requests)
        return Outcome("exc", exc=e, partial=out, requests=requests[n0:])
    raise ValueError(call)


def run_calls_nb(G, cfg, calls, handler, link=None, max_steps=100, client=None):
    """Deterministic single-threaded driver: several API calls on one raw session.
    call = ('get', oid) | ('get_many', [oids]) | ('getnext', oid) | ('getbulk', oid, max_rep) | ('refresh',)
         | ('getnext1', oid) | ('getbulk1', oid, max_rep)   (single exchange)."""
    own = link is None
    if own:
        link = ag.NbLink()
    requests = []
    try:
        c = client or NbClient(G, cfg, link)
        return [_nb_one(c, link, call, handler, requests, max_steps) for call in calls]
    finally:
        if own:
            link.close()


def _sync_one(s, call, received, max_items):
    n0 = len(received)
    out = []
    try:
        op = call[0]
        if op == "get":
            return Outcome("ok", s.get(call[1]), requests=received[n0:])
        if op == "get_many":
            return Outcome("ok", s.get_many(call[1]), requests=received[n0:])
        if op == "refresh":
            return Outcome("ok", s.refresh(), requests=received[n0:])
        if op in ("getnext", "getnext1"):
            it = s.getnext(call[1])
        elif op in ("getbulk", "getbulk1"):
            it = s.getbulk(call[1], call[2])
        elif op in ("fetch", "fetch1"):
            it = s.fetch(call[1])
        else:
            raise ValueError(call)
        if op.endswith("1"):
            try:
                return Outcome("ok", next(it), requests=received[n0:])
            except StopIteration as e:
                return Outcome("exc", exc=e, requests=received[n0:])
        for x in it:
            out.append(x)
            if len(out) > max_items:
                return Outcome("runaway", partial=out, requests=received[n0:])
        return Outcome("ok", out, requests=received[n0:])
    except BaseException as e:  # noqa: BLE001
        return Outcome("exc", exc=e, partial=out, requests=received[n0:])


def run_calls_sync(G, cfg, calls, handler, timeout=1.0, max_items=2000, session_kw=None, use_with=False):
    """The real blocking gufo.snmp.sync_client.SnmpSession; agent in a daemon thread."""
    agent = ag.AgentThread(handler)
    agent.start()
    try:
        try:
            s = sync_session(G, cfg, agent.port, timeout, **(session_kw or {}))
            if use_with:
                s = s.__enter__()
        except BaseException as e:  # noqa: BLE001
            return [Outcome("exc", exc=e, requests=list(agent.received))]
        return [_sync_one(s, call, agent.received, max_items) for call in calls]
    finally:
        agent.stop()
        if agent.errors:
            raise RuntimeError("agent handler failed: %s" % agent.errors[:3])


def run_calls_async(G, cfg, calls, handler, timeout=1.0, max_items=2000, session_kw=None, use_with=False):
    """The real gufo.snmp.SnmpSession (asyncio); agent is a DatagramProtocol on the same loop."""
    import asyncio

    received = []
    errors = []

    class Proto(asyncio.DatagramProtocol):
        def connection_made(self, transport):
            self.transport = transport

        def datagram_received(self, data, addr):
            received.append(data)
            try:
                loop = asyncio.get_running_loop()
                for out in handler(data) or []:
                    # a float is a pause before the next datagram; datagrams leave strictly in the order the handler
                    # produced them, also across requests (as with the sequential agent thread of the sync driver)
                    now = loop.time()
                    if isinstance(out, float):
                        self.busy_until = max(now, getattr(self, "busy_until", 0.0)) + out
                    elif getattr(self, "busy_until", 0.0) > now:
                        self.busy_until += 1e-4
                        loop.call_at(self.busy_until, self.transport.sendto, out, addr)
                    else:
                        self.transport.sendto(out, addr)
            except Exception as e:  # noqa: BLE001
                errors.append(repr(e))

    async def one(s, call):
        n0 = len(received)
        out = []
        try:
            op = call[0]
            if op == "get":
                return Outcome("ok", await s.get(call[1]), requests=received[n0:])
            if op == "get_many":
                return Outcome("ok", await s.get_many(call[1]), requests=received[n0:])
            if op == "refresh":
                return Outcome("ok", await s.refresh(), requests=received[n0:])
            if op in ("getnext", "getnext1"):
                it = s.getnext(call[1])
            elif op in ("getbulk", "getbulk1"):
                it = s.getbulk(call[1], call[2])
            elif op in ("fetch", "fetch1"):
                it = s.fetch(call[1])
            else:
                raise ValueError(call)
            if op.endswith("1"):
                try:
                    return Outcome("ok", await it.__anext__(), requests=received[n0:])
                except StopAsyncIteration as e:
                    return Outcome("exc", exc=e, requests=received[n0:])
            async for x in it:
                out.append(x)
                if len(out) > max_items:
                    return Outcome("runaway", partial=out, requests=received[n0:])
            return Outcome("ok", out, requests=received[n0:])
        except BaseException as e:  # noqa: BLE001
            if isinstance(e, (KeyboardInterrupt, SystemExit, asyncio.CancelledError)):
                raise
            return Outcome("exc", exc=e, partial=out, requests=received[n0:])

    async def main():
        loop = asyncio.get_running_loop()
        transport, _ = await loop.create_datagram_endpoint(Proto, local_addr=("127.0.0.1", 0))
        port = transport.get_extra_info("sockname")[1]
        try:
            try:
                s = async_session(G, cfg, port, timeout, **(session_kw or {}))
                if use_with:
                    s = await s.__aenter__()
            except BaseException as e:  # noqa: BLE001
                if isinstance(e, (KeyboardInterrupt, SystemExit, asyncio.CancelledError)):
                    raise
                return [Outcome("exc", exc=e, requests=list(received))]
            res = []
            for call in calls:
                res.append(await one(s, call))
            await asyncio.sleep(0.005)  # let the agent see every request that was sent
            return res
        finally:
            transport.close()

    r = asyncio.run(main())
    if errors:
        raise RuntimeError("agent handler failed: %s" % errors[:3])
    return r


def walk_pairs(items, info=""):
    """What a walk yielded, as a list of (oid text, value): anything that is not such a pair (None, a bare value, ...) is a
    Failure - the iterators yield (oid, value) tuples and nothing else."""
    from . import core
    out = []
    for x in items or []:
        if not (isinstance(x, (tuple, list)) and len(x) == 2 and isinstance(x[0], str)):
            raise core.Failure("walk-yielded-non-pair", "%s: the walk yielded %r among %d items; every item must be an (oid, value) pair"
                               % (info, x, len(items)))
        out.append((x[0], x[1]))
    return out


def run_calls(G, driver, cfg, calls, handler, **kw):
    if driver == "nb":
        calls = [(("getnext", c[1]) if cfg.version == "v1" else ("getbulk", c[1], 20)) if c[0] == "fetch" else c for c in calls]
        return run_calls_nb(G, cfg, calls, handler, **{k: v for k, v in kw.items() if k in ("link", "max_steps", "client")})
    kw2 = {k: v for k, v in kw.items() if k in ("timeout", "max_items", "session_kw", "use_with")}
    if driver == "sync":
        return run_calls_sync(G, cfg, calls, handler, **kw2)
    if driver == "async":
        return run_calls_async(G, cfg, calls, handler, **kw2)
    raise ValueError(driver)


def run_api(G, driver, cfg, call, handler, **kw):
    return run_calls(G, driver, cfg, [call], handler, **kw)[0]
