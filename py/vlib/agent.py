"""Scripted in-process agent + session configurations + drivers.

The agent side is pure functions over bytes (reference codec/crypto only).
Drivers:
  * NbLink: non-blocking raw `_fast` socket (timeout_ns=0) + agent UDP socket in
    the same thread; fully deterministic (loopback UDP delivery is synchronous).
  * sync / async front-ends are built by the checks on top of `AgentThread` /
    asyncio protocol using the same pure functions.
"""
import hashlib
import socket
import threading
import time

from . import refber as rb
from . import refusm as ru

AUTH_CODE = {None: 0, "md5": 1, "sha1": 2}
PRIV_CODE = {None: 0, "des": 1, "aes": 2}
KT_CODE = {"password": 0, "master": 1, "localized": 2}


class Cfg:
    """A session configuration (what the caller asks for)."""

    def __init__(self, version="v2c", community="public", user="user", engine_id=b"", auth=None, priv=None,
                 auth_kt="password", priv_kt="password", auth_secret=b"authpass1234", priv_secret=b"privpass1234",
                 via_set_keys=False, shared_key_objects=False):
        self.version = version
        self.community = community
        self.user = user
        self.engine_id = bytes(engine_id)  # engine id the session is created with (b"" = discover)
        self.auth = auth
        self.priv = priv
        self.auth_kt = auth_kt
        self.priv_kt = priv_kt
        self.auth_secret = bytes(auth_secret)  # password text (the root secret)
        self.priv_secret = bytes(priv_secret)
        # True: the session is first created with other credentials and the real ones are installed with set_keys()
        # (the path the clients take after engine-id discovery)
        self.via_set_keys = bool(via_set_keys)
        # True: the privacy *password* key object handed to User() was handed to another User (other digest) before -
        # applications build one key object from their configuration and reuse it
        self.shared_key_objects = bool(shared_key_objects)

    def describe(self):
        if self.version != "v3":
            return "%s community=%r" % (self.version, self.community)
        return "v3 user=%r auth=%s/%s priv=%s/%s engine=%s%s" % (
            self.user, self.auth, self.auth_kt, self.priv, self.priv_kt, self.engine_id.hex(), " (set_keys)" if self.via_set_keys else "")

    # -- independent key derivation ------------------------------------------
    def kul_auth(self, engine_id):
        if not self.auth:
            return None
        return ru.localize(self.auth, ru.password_to_master(self.auth, self.auth_secret), engine_id)

    def kul_priv(self, engine_id):
        if not self.priv:
            return None
        # privacy key is localized with the *auth* digest (RFC 3414 / 3826)
        return ru.localize(self.auth, ru.password_to_master(self.auth, self.priv_secret), engine_id)

    # -- key material as handed to the API for the chosen key type -----------
    def auth_material(self, engine_id):
        if not self.auth:
            return b""
        if self.auth_kt == "password":
            return self.auth_secret
        m = ru.password_to_master(self.auth, self.auth_secret)
        if self.auth_kt == "master":
            return m
        return ru.localize(self.auth, m, engine_id)

    def priv_material(self, engine_id):
        if not self.priv:
            return b""
        if self.priv_kt == "password":
            return self.priv_secret
        m = ru.password_to_master(self.auth, self.priv_secret)
        if self.priv_kt == "master":
            return m
        return ru.localize(self.auth, m, engine_id)

    def raw_args(self, engine_id=None):
        """(user, auth_alg, auth_key, priv_alg, priv_key) for _fast.SnmpV3ClientSocket / set_keys."""
        eid = self.engine_id if engine_id is None else engine_id
        return (self.user,
                AUTH_CODE[self.auth] | (KT_CODE[self.auth_kt] << 6), self.auth_material(eid),
                PRIV_CODE[self.priv] | (KT_CODE[self.priv_kt] << 6), self.priv_material(eid))

    def make_user(self, mod, engine_id=None):
        """gufo.snmp.user.User for the high-level sessions."""
        eid = self.engine_id if engine_id is None else engine_id
        U = mod.user
        ak = pk = None
        kt = {"password": U.KeyType.Password, "master": U.KeyType.Master, "localized": U.KeyType.Localized}
        if self.auth:
            ak = {"md5": U.Md5Key, "sha1": U.Sha1Key}[self.auth](self.auth_material(eid), key_type=kt[self.auth_kt])
        if self.priv:
            pk = {"des": U.DesKey, "aes": U.Aes128Key}[self.priv](self.priv_material(eid), key_type=kt[self.priv_kt])
            if self.shared_key_objects and self.priv_kt == "password" and self.auth:
                other = {"md5": U.Sha1Key, "sha1": U.Md5Key}[self.auth](b"some-other-users-password")
                U.User("someone-else", auth_key=other, priv_key=pk)
        return U.User(self.user, auth_key=ak, priv_key=pk)


def make_raw(fast, cfg, port, timeout_ns=0, engine_id=None):
    addr = "127.0.0.1:%d" % port
    if cfg.version == "v1":
        return fast.SnmpV1ClientSocket(addr, cfg.community, 0, 0, 0, timeout_ns)
    if cfg.version == "v2c":
        return fast.SnmpV2cClientSocket(addr, cfg.community, 0, 0, 0, timeout_ns)
    eid = cfg.engine_id if engine_id is None else engine_id
    u, aa, ak, pa, pk = cfg.raw_args(eid)
    return fast.SnmpV3ClientSocket(addr, eid, u, aa, ak, pa, pk, 0, 0, 0, timeout_ns)


# ---------------------------------------------------------------------------
# Request decoding on the agent side
# ---------------------------------------------------------------------------
class AgentView:
    """What the agent learned from one request datagram."""
    pass


def decode_request(cfg, dgram, engine_id=None, strict=True):
    """Parse a request emitted by the client.  For encrypted v3 messages the
    scoped PDU is decrypted with the reference cipher under keys localized to
    the engine id *in the message*.  Returns the dict from refber.parse_message
    extended with the decrypted fields ('plain', 'pad')."""
    m = rb.parse_message(dgram, strict=strict)
    if m["version"] == 3 and m.get("encrypted") is not None:
        eid = m["engine_id"]
        kul = cfg.kul_priv(eid)
        if kul is None:
            raise rb.BerError("encrypted message but no privacy key in model")
        ct = m["encrypted"]
        if cfg.priv == "des":
            if len(ct) % 8:
                raise rb.BerError("DES ciphertext length %d not a multiple of 8" % len(ct))
            if len(m["priv_params"]) != 8:
                raise rb.BerError("salt length %d" % len(m["priv_params"]))
            plain = ru.usm_des_decrypt(kul, m["priv_params"], ct)
        else:
            if len(m["priv_params"]) != 8:
                raise rb.BerError("salt length %d" % len(m["priv_params"]))
            plain = ru.usm_aes_decrypt(kul, m["boots"], m["time"], m["priv_params"], ct)
        sc = rb.parse_scoped(plain, 0, len(plain), strict, allow_trailing=True)
        m.update(sc)
        m["plain"] = plain
        m["pad"] = plain[sc["scoped_end"]:]
    return m


# ---------------------------------------------------------------------------
# Reply construction
# ---------------------------------------------------------------------------
def build_reply(cfg, req, varbinds, pdu_tag=rb.PDU_RESPONSE, request_id=None, error_status=0, error_index=0,
                community=None, version=None, msg_id=None, user=None, engine_id=None, boots=None, time=None,
                flags=None, mac="valid", encrypt=None, salt=None, pad_bytes=None, ctx_engine_id=None,
                max_size=65507, sec_model=3, forms=None, raw_pdu=None, raw_scoped=None, priv_params=None,
                auth_params=None, ctx_name=b""):
    """Build a reply to parsed request `req`.

    varbinds: list of already encoded varbind TLVs (refber.varbind).
    mac: 'valid' | 'zero' | 'random' | 'bitflip' | 'absent' | 'short' | bytes
    encrypt: None -> follow cfg.priv; False -> send in clear; True -> encrypt.
    forms: dict of length forms {pdu, vbl, msg}.
    """
    forms = forms or {}
    rid = req["request_id"] if request_id is None else request_id
    p = rb.pdu(pdu_tag, rid, error_status, error_index, varbinds, forms.get("pdu", 0), forms.get("vbl", 0))
    if raw_pdu is not None:
        p = raw_pdu
    if cfg.version in ("v1", "v2c"):
        ver = {"v1": 0, "v2c": 1}[cfg.version] if version is None else version
        comm = cfg.community.encode() if community is None else community
        return rb.msg_community(ver, comm, p, forms.get("msg", 0))
    # v3
    eid = req["engine_id"] if engine_id is None else engine_id
    b = req["boots"] if boots is None else boots
    t = req["time"] if time is None else time
    u = cfg.user.encode() if user is None else user
    mid = req["msg_id"] if msg_id is None else msg_id
    ceid = eid if ctx_engine_id is None else ctx_engine_id
    scoped = rb.scoped_pdu(ceid, ctx_name, p) if raw_scoped is None else raw_scoped
    do_enc = (cfg.priv is not None) if encrypt is None else encrypt
    do_auth = cfg.auth is not None and mac != "absent"
    if flags is None:
        flags = (1 if (cfg.auth is not None and mac != "absent") else 0) | (2 if do_enc else 0)
    if priv_params is None and not do_enc:
        priv_params = b""
    if do_enc:
        kul = cfg.kul_priv(eid)
        s = hashlib.sha256(scoped).digest()[:8] if salt is None else salt
        if priv_params is None:
            priv_params = s
        elif len(priv_params) == 8:
            s = bytes(priv_params)
        if cfg.priv == "des":
            plain = scoped
            padn = (-len(plain)) % 8
            pb = (pad_bytes if pad_bytes is not None else b"\x00" * padn)[:padn].ljust(padn, b"\x00")
            data = rb.tlv(rb.T_OCTETS, ru.des_cbc_encrypt(kul[:8], ru.des_iv(kul, s[:8].ljust(8, b"\0")), plain + pb))
        else:
            plain = scoped + (pad_bytes or b"")
            data = rb.tlv(rb.T_OCTETS, ru.usm_aes_encrypt(kul, b, t, s[:8].ljust(8, b"\0"), plain))
    else:
        data = scoped
    if priv_params is not None:
        priv_params = bytes(priv_params)
    if auth_params is not None:
        usm = rb.usm_params(eid, b, t, u, bytes(auth_params), priv_params)
        return rb.msg_v3(mid, max_size, flags, sec_model, usm, data, forms.get("msg", 0), 3 if version is None else version)
    if isinstance(mac, tuple) and mac[0] == "trunc" and cfg.auth is not None:
        # a MAC field of k octets holding the first k octets of the HMAC computed over the message with that
        # (k-octet) field zeroed: what a verifier that trusts the received field length would accept
        k = mac[1]
        usm = rb.usm_params(eid, b, t, u, b"\x00" * k, priv_params)
        msg = rb.msg_v3(mid, max_size, flags, sec_model, usm, data, forms.get("msg", 0), 3 if version is None else version)
        s0, s1 = rb.parse_message(msg, strict=False, data=False)["auth_span"]
        dig = ru.DIGESTS[cfg.auth][0]
        import hmac as _h
        full = _h.new(cfg.kul_auth(eid), msg, dig).digest()
        tag = (full + full)[:k]
        return msg[:s0] + tag + msg[s1:]
    if cfg.auth is None or mac == "absent":
        ap = b""
    elif mac == "short":
        ap = b"\x00" * 6
    else:
        ap = b"\x00" * 12
    usm = rb.usm_params(eid, b, t, u, ap, priv_params)
    msg = rb.msg_v3(mid, max_size, flags, sec_model, usm, data, forms.get("msg", 0), 3 if version is None else version)
    if ap and len(ap) == 12:
        kula = cfg.kul_auth(eid)
        # locate the auth field on a version-3 twin (offsets do not depend on the version value)
        twin = rb.msg_v3(mid, max_size, flags, sec_model, usm, data, forms.get("msg", 0), 3)
        s0, s1 = rb.parse_message(twin, strict=False, data=False)["auth_span"]
        good = ru.hmac96(cfg.auth, kula, msg)
        if mac == "valid":
            tag = good
        elif mac == "zero":
            tag = b"\x00" * 12
        elif mac == "random":
            tag = hashlib.sha256(b"random-mac" + good).digest()[:12]
        elif mac == "bitflip":
            tag = bytes([good[0] ^ 0x01]) + good[1:]
        elif isinstance(mac, (bytes, bytearray)):
            tag = bytes(mac)
        else:
            raise ValueError(mac)
        msg = msg[:s0] + tag + msg[s1:]
    return msg


def build_report(cfg, req, engine_id, boots, time, counter_oid=(1, 3, 6, 1, 6, 3, 15, 1, 1, 4, 0), counter=1,
                 user=None, msg_id=None, auth=False):
    """Unauthenticated (default) Report PDU as sent during discovery / time sync."""
    vb = [rb.varbind(rb.enc_oid(counter_oid), rb.tlv(rb.T_COUNTER32, rb.uint_content(counter)))]
    rid = req.get("request_id", 0)
    p = rb.pdu(rb.PDU_REPORT, rid, 0, 0, vb)
    scoped = rb.scoped_pdu(engine_id, b"", p)
    u = req["user"] if user is None else user
    mid = req["msg_id"] if msg_id is None else msg_id
    if auth and cfg.auth:
        usm = rb.usm_params(engine_id, boots, time, u, b"\0" * 12, b"")
        msg = rb.msg_v3(mid, 65507, 1, 3, usm, scoped)
        m = rb.parse_message(msg, strict=False, data=False)
        s0, s1 = m["auth_span"]
        return msg[:s0] + ru.hmac96(cfg.auth, cfg.kul_auth(engine_id), msg) + msg[s1:]
    usm = rb.usm_params(engine_id, boots, time, u, b"", b"")
    return rb.msg_v3(mid, 65507, 0, 3, usm, scoped)


# ---------------------------------------------------------------------------
# Non-blocking deterministic link
# ---------------------------------------------------------------------------
class NbLink:
    """One agent UDP socket + helpers.  Client sockets are created against its port."""

    def __init__(self):
        self.sock = socket.socket(socket.AF_INET, socket.SOCK_DGRAM)
        self.sock.bind(("127.0.0.1", 0))
        self.sock.setblocking(False)
        try:
            self.sock.setsockopt(socket.SOL_SOCKET, socket.SO_RCVBUF, 1 << 22)
        except OSError:
            pass
        self.port = self.sock.getsockname()[1]
        self.peer = None

    def close(self):
        self.sock.close()

    def recv_all(self):
        out = []
        while True:
            try:
                d, a = self.sock.recvfrom(65535)
            except BlockingIOError:
                break
            self.peer = a
            out.append(d)
        return out

    def recv_all_from(self):
        out = []
        while True:
            try:
                d, a = self.sock.recvfrom(65535)
            except BlockingIOError:
                break
            out.append((d, a))
        return out

    def send(self, dgram, peer=None):
        self.sock.sendto(dgram, peer or self.peer)


class AgentThread(threading.Thread):
    """Agent for the blocking sync client: handler(dgram) -> list of
    (delay_s, datagram) or plain datagrams.  Runs until stop()."""

    def __init__(self, handler):
        super().__init__(daemon=True)
        self.sock = socket.socket(socket.AF_INET, socket.SOCK_DGRAM)
        self.sock.bind(("127.0.0.1", 0))
        self.sock.settimeout(0.05)
        self.port = self.sock.getsockname()[1]
        self.handler = handler
        self._halt = threading.Event()
        self.errors = []
        self.received = []

    def _handle(self, d, a):
        self.received.append(d)
        try:
            for out in self.handler(d) or []:
                if isinstance(out, float):  # a pause before the next datagram of the burst
                    time.sleep(out)
                    continue
                self.sock.sendto(out, a)
        except Exception as e:  # harness bug: surface it, never swallow
            import traceback
            self.errors.append(repr(e) + traceback.format_exc())

    def run(self):
        while not self._halt.is_set():
            try:
                d, a = self.sock.recvfrom(65535)
            except socket.timeout:
                continue
            except OSError:
                return
            self._handle(d, a)
        # drain what is still queued so that every request the client sent is seen
        self.sock.setblocking(False)
        while True:
            try:
                d, a = self.sock.recvfrom(65535)
            except OSError:
                break
            self._handle(d, a)

    def stop(self):
        self._halt.set()
        self.join(timeout=2)
        self.sock.close()
